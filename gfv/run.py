"""
CLI:  python -m gfv.run <Cnn> <quick|thorough>
      python -m gfv.run --replay <file>

Environment: VERIF_SEED (int, default 1), VERIF_TIER (overridden by the
positional tier), GFV_REPO (tree under test, default /repo), GFV_JOBS,
GFV_BUDGET_S (wall-clock budget: hitting it makes the run "inconclusive",
never a violation), GFV_ONLY_LEG (debugging: run a single leg).
"""
import importlib
import json
import multiprocessing
import os
import sys
import time
import traceback


def _reexec_pinned(seed):
    """One re-exec so that hash randomisation (set order inside gffutils' merge
    code, among others) is a function of the seed."""
    want = str(seed % 4294967295)
    if os.environ.get("GFV_REEXEC") == "1" and os.environ.get("PYTHONHASHSEED") == want:
        return
    env = dict(os.environ)
    env["PYTHONHASHSEED"] = want
    env["PYTHONUTF8"] = "1"
    env["GFV_REEXEC"] = "1"
    os.execve(sys.executable, [sys.executable, "-m", "gfv.run"] + sys.argv[1:], env)


def _load(prop):
    return importlib.import_module("gfv.props.%s" % prop.lower())


def _legs(mod):
    return {l.name: l for l in mod.LEGS}


def _task(args):
    """Runs in a worker process."""
    prop, legname, shard, nshards, seed, n, tier, deadline_in = args
    from gfv import core

    t0 = time.monotonic()
    ctx = core.Ctx(tier, seed, shard)
    if not os.environ.get("GFV_KEEP_STDERR"):
        # the GTF importer writes progress to stderr unconditionally
        sys.stderr = open(os.devnull, "w")
    try:
        mod = _load(prop)
        legobj = _legs(mod)[legname]
        rec = core.Recorder(prop, legname, ctx, core.load_known(prop))
        deadline = t0 + deadline_in
        shrink_budget = 20.0 if tier == "quick" else 180.0
        if legobj.kind == "hyp":
            core.run_hypothesis(legobj, rec, seed, n, deadline, shrink_budget)
        elif legobj.kind == "enum":
            for case in legobj.cases(tier, shard, nshards):
                if time.monotonic() > deadline:
                    rec.skipped_after_budget += 1
                    rec.exhaustive = False
                    break
                if rec.run_case(legobj, case) is not None:
                    break
            else:
                if rec.exhaustive is None and getattr(legobj, "exhaustive", False):
                    rec.exhaustive = True
        elif legobj.kind == "custom":
            legobj.run(rec, tier, seed, shard, nshards, deadline)
        else:
            raise core.HarnessError("unknown leg kind %r" % legobj.kind)
        res = rec.result()
        res["wall_s"] = time.monotonic() - t0
        res["seed"] = seed
        return ("ok", res)
    except core.HarnessError as e:
        return ("harness", "%s/%s shard %d: %s" % (prop, legname, shard, e))
    except BaseException as e:  # noqa
        return ("harness", "%s/%s shard %d: %r\n%s" % (prop, legname, shard, e, traceback.format_exc()))
    finally:
        ctx.close()


def _replay_one(mod, path, ctx, known):
    """-> (status, info); status in ok|violation|known."""
    from gfv import core

    with open(path) as fh:
        body = json.load(fh)
    legobj = _legs(mod)[body["leg"]]
    rec = core.Recorder(mod.PROP, body["leg"], ctx, known)
    f = rec.run_case(legobj, body["case"])
    if f is not None:
        return "violation", f
    if rec.known_hits:
        return "known", list(rec.known_hits)
    return "ok", None


def main(argv):
    if len(argv) >= 2 and argv[0] == "--replay":
        path = argv[1]
        with open(path) as fh:
            prop = json.load(fh)["property"]
        seed = int(os.environ.get("VERIF_SEED", "1"))
        _reexec_pinned(seed)
        from gfv import core

        core.import_gffutils()
        mod = _load(prop)
        ctx = core.Ctx("quick", seed)
        try:
            known = core.load_known(prop)
            status, info = _replay_one(mod, path, ctx, known)
        except core.HarnessError as e:
            print("HARNESS-ERROR %s" % e)
            return 2
        finally:
            ctx.close()
        if status == "violation":
            print("failure: %s" % info.msg)
            if info.detail:
                print(info.detail)
            print("VIOLATION property=%s replay=%s" % (prop, path))
            return 1
        if status == "known":
            for e in known:
                if e["id"] in info:
                    print("KNOWN-FINDING: property=%s %s" % (prop, e["what"]))
        print("OK property=%s replay=%s" % (prop, path))
        return 0

    if len(argv) < 1:
        print(__doc__)
        return 2
    prop = argv[0].upper()
    tier = argv[1] if len(argv) > 1 else os.environ.get("VERIF_TIER", "quick")
    if tier not in ("quick", "thorough"):
        print("tier must be quick or thorough")
        return 2
    seed = int(os.environ.get("VERIF_SEED", "1") or "1")
    _reexec_pinned(seed)

    t0 = time.monotonic()
    from gfv import core

    if not os.environ.get("GFV_KEEP_STDERR"):
        sys.stderr = open(os.devnull, "w")  # the GTF importer reports progress on stderr
    try:
        core.import_gffutils()
        mod = _load(prop)
    except BaseException as e:  # noqa
        print("HARNESS-ERROR cannot set up %s: %r\n%s" % (prop, e, traceback.format_exc()))
        return 2

    budget = float(os.environ.get("GFV_BUDGET_S", "0") or 0) or (300.0 if tier == "quick" else 5400.0)
    known = core.load_known(prop)
    violations = []  # (path, msg)
    known_lines = {}

    # 1. committed regression inputs, through the plain check functions
    n_replayed = 0
    ctx = core.Ctx(tier, seed)
    try:
        for path in core.committed_replays(prop):
            try:
                status, info = _replay_one(mod, path, ctx, known)
            except core.HarnessError as e:
                print("HARNESS-ERROR replay %s: %s" % (path, e))
                return 2
            n_replayed += 1
            if status == "violation":
                violations.append((path, info.msg))
            elif status == "known":
                for k in info:
                    known_lines[k] = known_lines.get(k, 0) + 1
    finally:
        ctx.close()

    # 2. generated search, sharded
    only = os.environ.get("GFV_ONLY_LEG")
    tasks = []
    for legobj in mod.LEGS:
        if only and legobj.name != only:
            continue
        shards, n = legobj.budget[tier]
        scale = float(os.environ.get("GFV_SCALE", "1") or 1)
        n = max(1, int(n * scale))
        for i in range(shards):
            tasks.append((prop, legobj.name, i, shards, seed * 1000 + i, n, tier, budget))
    jobs = int(os.environ.get("GFV_JOBS", "0") or 0) or min(16, os.cpu_count() or 1)
    jobs = max(1, min(jobs, max(1, len(tasks))))
    results = []
    harness = []
    legs_by_name = _legs(mod)
    # legs that start processes of their own cannot run inside (daemonic) pool workers
    main_tasks = [t for t in tasks if getattr(legs_by_name[t[1]], "run_in_main", False)]
    tasks = [t for t in tasks if t not in main_tasks]
    if tasks:
        mpctx = multiprocessing.get_context("fork")
        with mpctx.Pool(jobs, maxtasksperchild=1) as pool:
            for status, res in pool.imap_unordered(_task, tasks, chunksize=1):
                if status == "ok":
                    results.append(res)
                else:
                    harness.append(res)
    for t in main_tasks:
        status, res = _task(t)
        if status == "ok":
            results.append(res)
        else:
            harness.append(res)
    if harness:
        print("HARNESS-ERROR (%d shard(s)); first:\n%s" % (len(harness), harness[0][:4000]))
        return 2

    # 3. merge
    legs = {}
    nt_all = set()
    nt_extra = 0
    evaluations = 0
    classes = {}
    samples = []
    skipped = 0
    excluded = {}
    exhaustive_legs = []
    best = None
    for r in sorted(results, key=lambda r: (r["leg"], r["shard"])):
        L = legs.setdefault(
            r["leg"],
            {"evaluations": 0, "nontrivial": set(), "nt_extra": 0, "shards": 0, "seeds": [], "wall_s": 0.0,
             "exhaustive": None, "notes": []},
        )
        L["evaluations"] += r["evaluations"]
        L["nontrivial"].update(r["nt_hashes"])
        L["nt_extra"] += r["nt_extra"]
        L["shards"] += 1
        L["seeds"].append(r["seed"])
        L["wall_s"] = max(L["wall_s"], r["wall_s"])
        for n_ in r["notes"]:
            if n_ not in L["notes"]:
                L["notes"].append(n_)
        if r["exhaustive"] is not None:
            L["exhaustive"] = r["exhaustive"] if L["exhaustive"] is None else (L["exhaustive"] and r["exhaustive"])
        evaluations += r["evaluations"]
        nt_all.update((r["leg"], h) for h in r["nt_hashes"])
        nt_extra += r["nt_extra"]
        skipped += r["skipped_after_budget"]
        for k, v in r["classes"].items():
            kk = "%s:%s" % (r["leg"], k)
            classes[kk] = classes.get(kk, 0) + v
        for k, v in r["excluded"].items():
            excluded[k] = excluded.get(k, 0) + v
        for k, v in r["known_hits"].items():
            known_lines[k] = known_lines.get(k, 0) + v
        if r["shard"] == 0:
            for s in r["samples"][:3]:
                samples.append({"leg": r["leg"], "case": s})
        if r["failure"] is not None:
            size = len(core.jdump(r["failure"]["case"]))
            if best is None or size < best[0]:
                best = (size, r["leg"], r["failure"])
    for name, L in legs.items():
        L["distinct_nontrivial"] = len(L.pop("nontrivial")) + L.pop("nt_extra")
        if L["exhaustive"]:
            exhaustive_legs.append(name)
        L["wall_s"] = round(L["wall_s"], 2)
    if best is not None:
        p = core.write_failure_file(prop, best[1], best[2]["case"], best[2]["failure"])
        violations.append((p, best[2]["failure"]["msg"]))

    if not samples:
        samples = [{"note": "no non-trivial sample recorded"}]
    wall = time.monotonic() - t0
    cov = {
        "evaluations": evaluations,
        "distinct_nontrivial": len(nt_all) + nt_extra,
        "rule": mod.RULE,
        "samples": samples[:12],
        "classes": dict(sorted(classes.items())),
        "legs": legs,
        "exhaustive": bool(exhaustive_legs) and len(exhaustive_legs) == len(legs),
        "exhaustive_legs": exhaustive_legs,
        "jobs": jobs,
        "regression_replays": n_replayed,
        "known_findings_hit": known_lines,
        "excluded_by_construction": excluded,
        "skipped_after_budget": skipped,
        "inconclusive": skipped > 0,
        "repo": core.REPO,
        "python_hash_seed": os.environ.get("PYTHONHASHSEED"),
    }
    body = {
        "property_id": prop,
        "tier": tier,
        "seed": seed,
        "level": "exploration",
        "coverage": cov,
        "assumptions": list(mod.ASSUMPTIONS),
        "wall_s": round(wall, 2),
        "violations": len(violations),
    }
    core.write_evidence(prop, body)

    for e in known:
        if e["id"] in known_lines:
            print("KNOWN-FINDING: property=%s %s (seen %d times)" % (prop, e["what"], known_lines[e["id"]]))
    print(
        "%s %s seed=%d: %d evaluations, %d distinct non-trivial, %d legs, %.1fs%s"
        % (prop, tier, seed, evaluations, cov["distinct_nontrivial"], len(legs), wall,
           " (budget hit: inconclusive)" if skipped else "")
    )
    if violations:
        for p, msg in violations:
            print("failure: %s" % msg)
            print("VIOLATION property=%s replay=%s" % (prop, p))
        return 1
    return 0


if __name__ == "__main__":
    try:
        rc = main(sys.argv[1:])
    except SystemExit:
        raise
    except BaseException as e:  # noqa
        print("HARNESS-ERROR %r\n%s" % (e, traceback.format_exc()))
        rc = 2
    sys.stdout.flush()
    sys.exit(rc)
