"""
C10  Update/delete histories leave exactly the modelled content; ids never recycle.

Stateful, model-based: a History applies JSON-able operations to a real file database
and to a reference model (MergeModel for update, set arithmetic for delete/add_relation),
and compares the full snapshot after every step.  Driven by a Hypothesis
RuleBasedStateMachine (random histories, shrinking as one value) and by an exhaustive
enumeration of all sequences over a fixed 8-operation alphabet up to a depth bound.
"""
import gc
import itertools
import os

from gfv import dbsnap
from gfv import textmodel as tm
from gfv.core import Failure, HarnessError
from gfv.refmodels import MergeModel, ModelAmbiguous, ModelError, gff_links, gtf_links_factory

PROP = "C10"
RULE = (
    "(machine) random histories of up to 25 (quick) / 50 (thorough) steps on a GFF3 database (two thirds) or a GTF-importer "
    "database with inference off (one third) over update(records from a 15-/12-record pool that shares ids and Parent / "
    "transcript / gene values, GFF3 up to depth 4; strategy in the five; input as list, generator, list iterator, map object, constructor-built Features or text path; make_backup), "
    "delete(ids / Features / missing id; make_backup), add_relation(fresh pair, level 1/2), reopen, empty update, and a "
    "faulty update whose source raises after k items (while the dialect is inferred, or mid-import under a short checklines window), "
    "followed by one more id-less update on the same handle; snapshot compared with the model after every step. (exhaustive) all "
    "operation sequences up to depth 3 (quick) / 4 (thorough) over a fixed 8-operation alphabet. Non-trivial history = a "
    "delete followed by an update that re-adds or auto-numbers, or a reopen between two updates, or a faulted update. "
    "Histories are distinct by hash of their operation list."
)
ASSUMPTIONS = [
    "file databases; the feature source of a faulty update fails by raising an exception (no process crash / disk fault injection)",
    "after an update that raises (strategy 'error' on a duplicate, or a failing source) the '.bak' promise is checked and the model stops "
    "(what a failed update leaves behind is unspecified); after a failing source one more update with id-less features is made through "
    "the same handle: it must succeed and its auto-generated keys must be none a stored feature has or ever had; then the history ends",
    "'replace' updates never change the Parent of the replaced feature (that is known finding D11 of C05); counted as excluded",
    "add_relation is only generated for pairs not yet related at that level (a duplicate raises IntegrityError by design of the schema)",
]

D = {"style": "gff3", "sep": ";", "trailing": False, "repeated": False}


def R(ft, start, end, attrs, strand="+"):
    return {"cols": ["chr1", "src", ft, str(start), str(end), ".", strand, "."], "attrs": attrs, "extras": []}


POOL = [
    R("gene", 1, 1000, [["ID", ["g1"]], ["Name", ["G1"]]]),  # 0
    R("mRNA", 1, 900, [["ID", ["m1"]], ["Parent", ["g1"]]]),  # 1
    R("exon", 10, 50, [["ID", ["e1"]], ["Parent", ["m1"]]]),  # 2
    R("exon", 10, 50, [["ID", ["e1"]], ["Parent", ["m1"]], ["Note", ["x"]]]),  # 3 equal columns
    R("exon", 12, 50, [["ID", ["e1"]], ["Parent", ["m1"]], ["Note", ["y"]]]),  # 4 different columns
    R("exon", 100, 150, [["Parent", ["m1"]], ["Note", ["auto"]]]),  # 5 no ID -> exon_n
    R("CDS", 100, 150, [["Parent", ["m1"]], ["Note", ["auto"]]]),  # 6 no ID -> CDS_n
    R("mRNA", 1, 800, [["ID", ["m2"]], ["Parent", ["g1"]]]),  # 7
    R("exon", 200, 250, [["ID", ["e2"]], ["Parent", ["m1", "m2"]]]),  # 8
    R("gene", 2000, 3000, [["ID", ["g2"]], ["Name", ["G2"]]]),  # 9
    R("part", 20, 30, [["ID", ["p1"]], ["Parent", ["e1"]]]),  # 10 depth 4
    R("exon", 10, 50, [["ID", ["e1"]], ["Parent", ["m2"]], ["Note", ["z"]]]),  # 11 equal columns, other Parent
    R("mRNA", 2000, 2900, [["ID", ["m3"]], ["Parent", ["g2"]], ["Note", ["a", "b"]]]),  # 12
    R("exon", 2100, 2200, [["Parent", ["m3"]], ["Note", ["auto2"]]]),  # 13 no ID
    R("exon", 300, 350, [["ID", ["e9"]], ["Parent", ["ghost1", "m1"]]]),  # 14 a Parent naming no stored feature
    R("part", 310, 320, [["ID", ["p\u2028x\x85"]], ["Parent", ["e9"]]]),  # 15 an id with U+2028 / U+0085 (legal, unescaped) at the bottom of a chain
]
SEED = [0, 1, 2]

DG = {"style": "gtf", "sep": "; ", "trailing": True, "repeated": False}


def G(ft, start, end, attrs, strand="+"):
    return {"cols": ["chr2", "src", ft, str(start), str(end), ".", strand, "."], "attrs": attrs, "extras": []}


# GTF-importer pool (id_spec="ID", inference disabled): relations come from transcript_id / gene_id
GTF_POOL = [
    G("exon", 10, 50, [["gene_id", ["g1"]], ["transcript_id", ["t1"]], ["ID", ["x1"]]]),  # 0
    G("exon", 60, 90, [["gene_id", ["g1"]], ["transcript_id", ["t1"]], ["ID", ["x2"]]]),  # 1
    G("CDS", 12, 48, [["gene_id", ["g1"]], ["transcript_id", ["t1"]], ["note", ["auto"]]]),  # 2 no ID -> CDS_n
    G("exon", 10, 50, [["gene_id", ["g1"]], ["transcript_id", ["t1"]], ["ID", ["x1"]], ["note", ["x"]]]),  # 3 equal columns
    G("exon", 12, 50, [["gene_id", ["g1"]], ["transcript_id", ["t1"]], ["ID", ["x1"]], ["note", ["y"]]]),  # 4 different columns
    G("exon", 10, 50, [["gene_id", ["g1"]], ["transcript_id", ["t2"]], ["ID", ["x1"]], ["note", ["z"]]]),  # 5 equal columns, other transcript
    G("exon", 100, 150, [["gene_id", ["g1"]], ["transcript_id", ["t2"]], ["note", ["auto"]]]),  # 6 no ID -> exon_n
    G("exon", 500, 550, [["gene_id", ["g2"]], ["transcript_id", ["t3"]], ["ID", ["x3"]]]),  # 7
    G("transcript", 10, 150, [["gene_id", ["g1"]], ["transcript_id", ["t1"]], ["ID", ["t1"]]]),  # 8 explicit transcript line
    G("gene", 10, 150, [["gene_id", ["g1"]], ["ID", ["g1"]]]),  # 9 explicit gene line
    G("start_codon", 12, 14, [["gene_id", ["g1"]], ["transcript_id", ["t1"]], ["note", ["auto"]]]),  # 10 no ID
    G("exon", 500, 550, [["gene_id", ["g2"]], ["transcript_id", ["t3"]], ["ID", ["x3"]], ["note", ["a", "b"]]]),  # 11 equal columns
]

FLAVORS = {
    "gff3": {"pool": POOL, "seed": SEED, "dialect": D, "links": gff_links, "closure": True, "kw": {},
             "header": "##gff-version 3\n", "types": ("gene", "mRNA", "exon", "CDS", "part")},
    "gtf": {"pool": GTF_POOL, "seed": [0, 1, 2], "dialect": DG, "links": gtf_links_factory(), "closure": False,
            "kw": {"id_spec": "ID", "disable_infer_genes": True, "disable_infer_transcripts": True},
            "header": "", "types": ("gene", "transcript", "exon", "CDS", "start_codon")},
}
STRATEGIES = ["error", "warning", "replace", "create_unique", "merge"]


def _rec(r):
    a = tm.attrs_dict(r)
    return {"id": a["ID"][0] if "ID" in a else None, "cols": tm.expected_cols(r), "attrs": a}


class Faulty(Exception):
    pass


class History(object):
    """Applies operations to the real database and the model; .step(op) -> Failure | None."""

    def __init__(self, ctx, flavor="gff3"):
        import gffutils

        self.gffutils = gffutils
        self.ctx = ctx
        self.flavor = flavor
        self.F = FLAVORS[flavor]
        self.pool = self.F["pool"]
        self.dbfn = ctx.path("hist.db")
        text = self.F["header"] + "\n".join(tm.render_line(self.pool[i], self.F["dialect"]) for i in self.F["seed"]) + "\n"
        self.db = gffutils.create_db(text, self.dbfn, from_string=True, **self.F["kw"])
        self.m = MergeModel("error", links=self.F["links"], level2_closure=self.F["closure"])
        self.rel = set()
        for i in self.F["seed"]:
            rec = _rec(self.pool[i])
            if rec["id"] is None:
                rec["id"] = self.m._fresh(rec["cols"][2])
            fid = self.m.add(rec)
            self.rel |= self.m._line_links(fid, rec)
        self._close2()
        self.init = dbsnap.snapshot(self.db)
        self.ever_stored = set()
        self.ops = []
        self.ended = False
        self.flags = set()
        self.excluded = 0
        # the seed import is library behaviour too: a mismatch here is reported as the first step's failure
        self.init_failure = self.compare("after creation")

    # ---- model helpers
    def _close2(self):
        if not self.F["closure"]:
            return
        c1 = {}
        for p, c, l in self.rel:
            if l == 1:
                c1.setdefault(p, set()).add(c)
        for g in self.m.store:
            for p in c1.get(g, ()):
                for c in c1.get(p, ()):
                    self.rel.add((g, c, 2))

    def stored_ids(self):
        return list(self.m.order)

    def compare(self, what):
        snap = dbsnap.snapshot(self.db)
        self.last_snap = snap
        self.ever_stored.update(r["id"] for r in snap["features"])
        got = dict((r["id"], r) for r in snap["features"])
        if len(got) != len(snap["features"]):
            return Failure("%s: duplicate ids in the features table" % what, sig={"kind": "dup-ids"})
        if set(got) != set(self.m.store):
            return Failure("%s: stored ids %r, model %r" % (what, sorted(got), sorted(self.m.store)), sig={"kind": "id-set"})
        for fid, mm in self.m.store.items():
            row = got[fid]
            if row["cols"] != mm["cols"]:
                return Failure("%s: feature %r columns %r, model %r" % (what, fid, row["cols"], mm["cols"]), sig={"kind": "columns"})
            have = dict((k, v) for k, v in row["attrs"])
            if mm["merged"]:
                if dict((k, sorted(v)) for k, v in have.items()) != dict((k, sorted(v)) for k, v in mm["attrs"].items()) or any(
                        len(v) != len(set(v)) for v in have.values()):
                    return Failure("%s: merged feature %r attributes %r, model %r" % (what, fid, have, mm["attrs"]), sig={"kind": "attrs"})
            elif have != mm["attrs"]:
                return Failure("%s: feature %r attributes %r, model %r" % (what, fid, have, mm["attrs"]), sig={"kind": "attrs"})
        have_rel = set(tuple(r) for r in snap["relations"])
        if have_rel != self.rel:
            return Failure("%s: relations differ from the model: missing %r, extra %r"
                           % (what, sorted(self.rel - have_rel), sorted(have_rel - self.rel)),
                           sig={"kind": "relations", "missing": bool(self.rel - have_rel), "extra": bool(have_rel - self.rel)})
        if snap["directives"] != self.init["directives"]:
            return Failure("%s: directives changed to %r" % (what, snap["directives"]), sig={"kind": "directives"})
        if snap["dialect"] != self.init["dialect"] or list(self.db.dialect.items()) != list(self.init["dialect"].items()):
            return Failure("%s: dialect changed" % what, sig={"kind": "dialect"})
        # look-ups, distinct values through the same (long-lived) handle
        for fid, mm in self.m.store.items():
            f = self.db[fid]
            cols = [f.seqid, f.source, f.featuretype, f.start, f.end, f.score, f.strand, f.frame]
            attrs = dict((k, list(v)) for k, v in f.attributes.items())
            same = (dict((k, sorted(v)) for k, v in attrs.items()) == dict((k, sorted(v)) for k, v in mm["attrs"].items())) if mm["merged"] \
                else attrs == mm["attrs"]
            if cols != mm["cols"] or not same:
                return Failure("%s: db[%r] returns %r / %r, stored is %r / %r" % (what, fid, cols, attrs, mm["cols"], mm["attrs"]),
                               sig={"kind": "lookup-stale"})
        # ids that are no longer (or not yet) stored are absent for look-ups as well
        from gffutils.exceptions import FeatureNotFoundError

        for fid in sorted(self.ever_stored - set(self.m.store))[:6]:
            try:
                f = self.db[fid]
            except FeatureNotFoundError:
                continue
            return Failure("%s: db[%r] returns %r although no feature is stored under that id" % (what, fid, str(f)), sig={"kind": "lookup-ghost"})
        if sorted(self.db.featuretypes()) != sorted(set(mm["cols"][2] for mm in self.m.store.values())):
            return Failure("%s: featuretypes() = %r" % (what, sorted(self.db.featuretypes())), sig={"kind": "distinct-stale"})
        if sorted(self.db.seqids()) != sorted(set(mm["cols"][0] for mm in self.m.store.values())):
            return Failure("%s: seqids() = %r" % (what, sorted(self.db.seqids())), sig={"kind": "distinct-stale"})
        n_total = self.db.count_features_of_type()
        if n_total != len(self.m.store):
            return Failure("%s: count_features_of_type() = %r, %d features stored" % (what, n_total, len(self.m.store)), sig={"kind": "count"})
        for ft in self.F["types"]:
            want = sum(1 for mm in self.m.store.values() if mm["cols"][2] == ft)
            if self.db.count_features_of_type(ft) != want:
                return Failure("%s: count_features_of_type(%r) = %r, %d stored" % (what, ft, self.db.count_features_of_type(ft), want),
                               sig={"kind": "count"})
        table = dict((b, n) for b, n in snap["autoincrements"])
        for base, n in self.m.cnt.items():
            if table.get(base, 0) < n:
                return Failure("%s: id counter %r is %r in the database, %d were issued" % (what, base, table.get(base), n),
                               sig={"kind": "counter"})
        return None

    def check_backup(self, before, what):
        bak = self.dbfn + ".bak"
        if not os.path.exists(bak):
            return Failure("%s with make_backup=True left no .bak file" % what, sig={"kind": "backup-missing"})
        b = self.gffutils.FeatureDB(bak)
        try:
            snap = dbsnap.snapshot(b)
        finally:
            b.conn.close()
        if snap != before:
            return Failure("%s: the .bak file is not the pre-operation database: %s" % (what, dbsnap.diff(before, snap)),
                           sig={"kind": "backup-content"})
        os.unlink(bak)
        return None

    # ---- operations
    def step(self, op):
        self.ops.append(op)
        if self.init_failure is not None:
            bad, self.init_failure = self.init_failure, None
            self.ended = True
            return bad
        if self.ended:
            return None
        kind = op["op"]
        before = self.last_snap
        if os.path.exists(self.dbfn + ".bak"):
            os.unlink(self.dbfn + ".bak")
        if kind == "reopen":
            self.db.conn.close()
            self.db = self.gffutils.FeatureDB(self.dbfn)
            if "updated" in self.flags:
                self.flags.add("reopen-after-update")
            return self.compare("after reopen")
        if kind == "update_empty":
            data = [] if op["form"] == "list" else iter([])
            self.db.update(data, make_backup=op["backup"])
            bad = self.compare("after an empty update")
            if bad is None and op["backup"]:
                bad = self.check_backup(before, "empty update")
            return bad
        if kind == "delete":
            return self._delete(op, before)
        if kind == "add_relation":
            return self._add_relation(op)
        if kind in ("update", "faulty_update"):
            return self._update(op, before)
        raise HarnessError("unknown op %r" % (op,))

    def _delete(self, op, before):
        ids = self.stored_ids()
        targets = []
        # ids that relations mention although no feature is stored under them (dangling Parent
        # values, or parents deleted earlier whose children were added again)
        ghosts = sorted(set(x for r in self.rel for x in r[:2]) - set(ids))
        for t in op["targets"]:
            if op["as"] == "relation-only" and ghosts:
                targets.append(ghosts[t % len(ghosts)])
                self.flags.add("deleted-relation-only-id")
            elif op["as"] in ("missing", "relation-only") or not ids:
                targets.append("no-such-id-%d" % t)
            else:
                targets.append(ids[t % len(ids)])
        if op["as"] == "feature" and all(t in self.m.store for t in targets):
            arg = [self.db[t] for t in targets]
        elif op["as"] == "generator" and all(t in self.m.store for t in targets):
            arg = (f for f in [self.db[t] for t in targets])  # one-shot iterable of Features
        elif len(targets) == 1 and op["as"] == "id":
            arg = targets[0]
        else:
            arg = list(targets)
        self.db.delete(arg, make_backup=op["backup"])
        for t in set(targets):
            if t in self.m.store:
                del self.m.store[t]
                self.m.order.remove(t)
                self.flags.add("deleted")
            self.rel = set(r for r in self.rel if r[0] != t and r[1] != t)
        bad = self.compare("after delete(%r)" % (targets,))
        if bad is None and op["backup"]:
            bad = self.check_backup(before, "delete")
        return bad

    def _add_relation(self, op):
        ids = self.stored_ids()
        if len(ids) < 2:
            return None
        p = ids[op["parent"] % len(ids)]
        c = ids[op["child"] % len(ids)]
        lvl = op["level"]
        if p == c or (p, c, lvl) in self.rel:
            self.excluded += 1
            return None
        kw = {}
        if op.get("child_func") and "ID" in self.m.store[p]["attrs"]:
            # the documented use: copy the parent's ID into the child's Parent attribute (what merge_all does)
            from gffutils.interface import assign_child

            kw["child_func"] = assign_child
            self.m.store[c]["attrs"]["Parent"] = list(self.m.store[p]["attrs"]["ID"])
            self.flags.add("add_relation-child_func")
        self.db.add_relation(p if op["by_id"] else self.db[p], c if op["by_id"] else self.db[c], lvl, **kw)
        self.rel.add((p, c, lvl))
        return self.compare("after add_relation(%r, %r, %d)" % (p, c, lvl))

    def _update(self, op, before):
        from gffutils.feature import feature_from_line

        recs = [self.pool[i % len(self.pool)] for i in op["recs"]]
        strategy = op["strategy"]
        if strategy == "replace":
            for r in recs:
                rr = _rec(r)
                old = self.m.store.get(rr["id"])
                if old is not None and any(old["attrs"].get(k) != rr["attrs"].get(k) for k in ("Parent", "transcript_id", "gene_id")):
                    self.excluded += 1  # D11 of C05
                    return None
        lines = [tm.render_line(r, self.F["dialect"]) for r in recs]
        faulty = op["op"] == "faulty_update"
        k = op.get("k", 0)

        def gen():
            for i, l in enumerate(lines):
                if faulty and i == k:
                    raise Faulty("source failed after %d items" % k)
                yield feature_from_line(l)
            if faulty and k >= len(lines):
                raise Faulty("source failed at the end")

        form = op["form"]
        if faulty or form == "generator":
            data = gen()
        elif form == "list":
            data = [feature_from_line(l) for l in lines]
        elif form == "list_iterator":
            data = iter([feature_from_line(l) for l in lines])  # one-shot, but not a generator object
        elif form == "map":
            data = map(feature_from_line, lines)
        elif form == "constructed":
            # Feature objects built through the constructor (they carry the default dialect, not the file's)
            from gffutils.feature import Feature

            data = []
            for r in recs:
                c = r["cols"]
                data.append(Feature(seqid=c[0], source=c[1], featuretype=c[2], start=c[3], end=c[4], score=c[5], strand=c[6], frame=c[7],
                                    attributes=dict((k, list(v)) for k, v in tm.attrs_dict(r).items())))
        else:
            data = self.ctx.write("upd.gff", "\n".join(lines) + "\n")
        # model first (on a copy of the relation set)
        self.m.strategy = strategy
        model_error = False
        added = []
        try:
            for r in recs:
                rec = _rec(r)
                if rec["id"] is None:
                    rec["id"] = self.m._fresh(rec["cols"][2])
                    self.flags.add("auto-numbered")
                elif rec["id"] in self.m.issued or ("deleted" in self.flags and rec["id"] not in self.m.store):
                    self.flags.add("re-added")
                fid = self.m.add(rec)
                if fid is not None:
                    added.append((fid, rec))
        except ModelError:
            model_error = True
        except ModelAmbiguous:
            self.excluded += 1
            self.ended = True  # the statement does not decide this history any further
            self.close()
            return None
        raised = None
        try:
            ukw = dict(self.F["kw"])
            if op.get("checklines") is not None:
                ukw["checklines"] = op["checklines"]
            self.db.update(data, make_backup=op["backup"], merge_strategy=strategy, **ukw)
        except Faulty as e:
            raised = e
        except ValueError as e:
            raised = e
        if faulty or model_error:
            self.ended = True
            self.flags.add("faulted" if faulty else "error-strategy")
            what = "update with a source failing after %d items" % k if faulty else "update(strategy error) on a duplicate"
            if raised is None:
                if faulty:
                    return Failure("%s did not propagate the source's exception" % what, sig={"kind": "fault-swallowed"})
                return Failure("%s did not raise" % what, sig={"kind": "error-not-raised"})
            bad = None
            if op["backup"]:
                bad = self.check_backup(before, what)
            if bad is None and faulty:
                raised = None
                gc.collect()  # the failed importer (a second connection holding the write lock) goes away with its last reference
                bad = self._after_fault()
            # release the second connection's write lock before the scratch files go away
            try:
                self.db.conn.close()
            except Exception:  # noqa
                pass
            self.db = None
            gc.collect()
            return bad
        if raised is not None:
            return Failure("update(%r, strategy %s) raised %s: %s" % (op["recs"], strategy, type(raised).__name__, raised),
                           sig={"kind": "raised", "exc": type(raised).__name__, "where": "update"})
        for fid, rec in added:
            self.rel |= self.m._line_links(fid, rec)
        self._close2()
        if "updated" in self.flags and "reopen-after-update" in self.flags:
            self.flags.add("update-reopen-update")
        self.flags.add("updated")
        bad = self.compare("after update(%r, strategy %s, %s)" % (op["recs"], strategy, form))
        if bad is None and op["backup"]:
            bad = self.check_backup(before, "update")
        return bad

    def _after_fault(self):
        """What a failed update left behind is not modelled; but the same handle can go on, and an auto-generated key it
        hands out next is none that a stored feature has or ever had."""
        ever = set(self.ever_stored)
        now = dbsnap.snapshot(self.db)
        have = set(r["id"] for r in now["features"])
        ever |= have
        idless = [r for r in self.pool if _rec(r)["id"] is None][:2]
        from gffutils.feature import feature_from_line

        try:
            self.db.update([feature_from_line(tm.render_line(r, self.F["dialect"])) for r in idless], make_backup=False,
                           merge_strategy="error", **self.F["kw"])
        except ValueError as e:
            return Failure("after a failed update, an update with %d id-less features on the same handle raised %s: %s"
                           % (len(idless), type(e).__name__, e), sig={"kind": "auto-id-reused-after-fault"})
        new = set(r["id"] for r in dbsnap.snapshot(self.db)["features"]) - have
        if len(new) != len(idless):
            return Failure("after a failed update, %d id-less features were added but %d new ids appeared: %r" % (len(idless), len(new), sorted(new)),
                           sig={"kind": "auto-id-reused-after-fault"})
        if new & ever:
            return Failure("after a failed update, auto-generated keys %r equal keys stored earlier" % sorted(new & ever),
                           sig={"kind": "auto-id-reused-after-fault"})
        self.flags.add("continued-after-fault")
        return None

    def nontrivial(self):
        return bool({"re-added", "update-reopen-update", "faulted"} & self.flags) or (
            "deleted" in self.flags and "auto-numbered" in self.flags)

    def close(self):
        try:
            if self.db is not None:
                self.db.conn.close()
        except Exception:  # noqa
            pass
        self.db = None


def run_history(ops, ctx, flavor="gff3"):
    h = History(ctx, flavor)
    try:
        if h.init_failure is not None:
            return h.init_failure, h
        for op in ops:
            bad = h.step(op)
            if bad is not None:
                return bad, h
        return None, h
    finally:
        h.close()


class _Base(object):
    def classify(self, case):
        # cheap static approximation; the measured flags are reported by the legs themselves
        kinds = [o["op"] for o in case["ops"]]
        return ("delete" in kinds and "update" in kinds) or "faulty_update" in kinds or kinds.count("update") >= 2, []

    def check(self, case, ctx):
        bad, _ = run_history(case["ops"], ctx, case.get("flavor", "gff3"))
        return bad


class MachineLeg(_Base):
    kind = "custom"
    name = "machine"
    budget = {"quick": (16, 120), "thorough": (16, 1500)}
    steps = {"quick": 25, "thorough": 50}

    def run(self, rec, tier, seed, shard, nshards, deadline):
        import time

        import hypothesis
        from hypothesis import HealthCheck, Phase, settings
        from hypothesis import strategies as st
        from hypothesis.stateful import RuleBasedStateMachine, initialize, precondition, rule, run_state_machine_as_test

        from gfv import core

        leg = self
        n_machines = self.budget[tier][1]
        ctx = rec.ctx
        state = {"t_fail": None}
        shrink_budget = 20.0 if tier == "quick" else 180.0

        class Machine(RuleBasedStateMachine):
            def __init__(self):
                super().__init__()
                now = time.monotonic()
                self.skip = now > deadline
                if state["t_fail"] is not None and now - state["t_fail"] > shrink_budget:
                    raise core._StopShrinking()
                ctx.cleanup()
                self.h = None
                self.flavor = None

            @initialize(flavor=st.sampled_from(["gff3", "gff3", "gtf"]))
            def start(self, flavor):
                self.flavor = flavor
                if not self.skip:
                    self.h = History(ctx, flavor)

            def _do(self, op):
                if self.skip or self.h is None:
                    return
                try:
                    bad = self.h.step(op)
                except core.HarnessError:
                    raise
                except Exception as e:  # noqa
                    if core.lib_frame(e) is None:
                        raise core.HarnessError("history step raised outside the library: %r\nops=%s" % (e, core.jdump(self.h.ops)[:1500]))
                    bad = core.raised_failure(e, "step %r" % (op,))
                if bad is not None:
                    if rec.report({"flavor": self.flavor, "ops": list(self.h.ops)}, bad) is not None:
                        if state["t_fail"] is None:
                            state["t_fail"] = time.monotonic()
                        raise AssertionError(bad.msg)

            @rule(recs=st.lists(st.integers(0, len(POOL) - 1), min_size=1, max_size=4),
                  strategy=st.sampled_from(STRATEGIES + ["merge", "create_unique", "warning", "replace", "merge", "create_unique"]),
                  form=st.sampled_from(["list", "generator", "path", "constructed", "list_iterator", "map"]), backup=st.booleans(),
                  checklines=st.sampled_from([None, None, 0, 1, 10]))
            def update(self, recs, strategy, form, backup, checklines):
                self._do({"op": "update", "recs": recs, "strategy": strategy, "form": form, "backup": backup, "checklines": checklines})

            @rule(which=st.lists(st.integers(0, 20), min_size=1, max_size=2), how=st.sampled_from(["id", "id", "feature", "generator", "missing", "relation-only"]),
                  backup=st.booleans())
            def delete(self, which, how, backup):
                self._do({"op": "delete", "targets": which, "as": how, "backup": backup})

            @rule(p=st.integers(0, 20), c=st.integers(0, 20), level=st.sampled_from([1, 2]), by_id=st.booleans(), child_func=st.booleans())
            def add_relation(self, p, c, level, by_id, child_func):
                self._do({"op": "add_relation", "parent": p, "child": c, "level": level, "by_id": by_id, "child_func": child_func})

            @rule()
            def reopen(self):
                self._do({"op": "reopen"})

            @rule(form=st.sampled_from(["list", "iter"]), backup=st.booleans())
            def update_empty(self, form, backup):
                self._do({"op": "update_empty", "form": form, "backup": backup})

            @precondition(lambda self: self.skip or (self.h is not None and not self.h.ended and len(self.h.ops) >= 4))
            @rule(recs=st.lists(st.integers(0, len(POOL) - 1), min_size=1, max_size=4), k=st.integers(0, 4),
                  strategy=st.sampled_from(["create_unique", "merge", "merge", "warning"]), backup=st.booleans(), really=st.integers(0, 2),
                  checklines=st.sampled_from([None, 0, 0, 1]))
            def faulty_update(self, recs, k, strategy, backup, really, checklines):
                if really == 0:
                    # with the default window the source fails while the dialect is being inferred; with a short window, mid-import
                    self._do({"op": "faulty_update", "recs": recs, "k": k, "strategy": strategy, "form": "generator", "backup": backup,
                              "checklines": checklines})
                else:
                    self._do({"op": "update", "recs": recs, "strategy": strategy, "form": "generator", "backup": backup})

            def teardown(self):
                if self.h is not None:
                    case = {"flavor": self.flavor, "ops": list(self.h.ops)}
                    rec.note_case(case, self.h.nontrivial(), sorted("history:" + f for f in self.h.flags) + ["flavor=" + self.flavor])
                    rec.excluded["replace-changes-parent or duplicate add_relation"] = rec.excluded.get(
                        "replace-changes-parent or duplicate add_relation", 0) + self.h.excluded
                    self.h.close()
                elif self.skip:
                    rec.skipped_after_budget += 1

        sett = settings(max_examples=n_machines, stateful_step_count=self.steps[tier], deadline=None, database=None,
                        derandomize=False, report_multiple_bugs=False, suppress_health_check=list(HealthCheck),
                        phases=[Phase.generate, Phase.shrink], print_blob=False)
        try:
            run_state_machine_as_test(hypothesis.seed(seed)(Machine), settings=sett)
        except core._StopShrinking:
            pass
        except core.HarnessError:
            raise
        except BaseException as e:  # noqa
            if rec.failure is None:
                if isinstance(e, (KeyboardInterrupt, SystemExit)):
                    raise
                import traceback

                raise core.HarnessError("state machine run failed: %r\n%s" % (e, traceback.format_exc()))
        finally:
            ctx.cleanup()


ALPHABET = [
    {"op": "update", "recs": [3], "strategy": "merge", "form": "list", "backup": False, "checklines": 0},
    {"op": "update", "recs": [4, 5], "strategy": "create_unique", "form": "generator", "backup": True},
    {"op": "update", "recs": [10, 14, 7], "strategy": "warning", "form": "path", "backup": False},
    {"op": "update", "recs": [5, 13], "strategy": "error", "form": "list_iterator", "backup": False},
    {"op": "delete", "targets": [2], "as": "generator", "backup": True},
    {"op": "delete", "targets": [17], "as": "relation-only", "backup": False},
    {"op": "reopen"},
    {"op": "add_relation", "parent": 0, "child": 2, "level": 2, "by_id": True},
]


# merge bookkeeping across deletes: the '<key>_n' features filed by strategy 'merge' stay candidates for later
# lines with that key, whichever of the features under the key is deleted in between
MERGE_ALPHABET = [
    {"op": "update", "recs": [4], "strategy": "merge", "form": "list", "backup": False},
    {"op": "update", "recs": [2], "strategy": "merge", "form": "generator", "backup": False},
    {"op": "update", "recs": [3, 4], "strategy": "merge", "form": "list", "backup": False},
    {"op": "update", "recs": [11], "strategy": "merge", "form": "path", "backup": False},
    {"op": "update", "recs": [4], "strategy": "create_unique", "form": "list", "backup": False},
    {"op": "delete", "targets": [2], "as": "id", "backup": False},
    {"op": "delete", "targets": [3], "as": "feature", "backup": False},
    {"op": "reopen"},
    # the source fails mid-import (short inspection window), after an id-less line and a line that 'merge' files under <key>_1
    {"op": "faulty_update", "recs": [5, 4, 13, 5], "k": 3, "strategy": "merge", "form": "generator", "backup": True, "checklines": 0},
]


class ExhaustiveLeg(_Base):
    kind = "custom"
    name = "exhaustive"
    budget = {"quick": (16, 0), "thorough": (16, 0)}
    depth = {"quick": 3, "thorough": 4}
    alphabet = None

    def __init__(self, name="exhaustive", alphabet=None, depth=None):
        self.name = name
        self.alphabet = alphabet
        if depth is not None:
            self.depth = depth

    def run(self, rec, tier, seed, shard, nshards, deadline):
        import time

        from gfv import core

        n = 0
        complete = True
        ALPHABET = self.alphabet
        for L in range(0, self.depth[tier] + 1):
            for combo in itertools.product(range(len(ALPHABET)), repeat=L):
                n += 1
                if n % nshards != shard:
                    continue
                if time.monotonic() > deadline:
                    complete = False
                    break
                ops = [ALPHABET[i] for i in combo]
                case = {"ops": ops}
                try:
                    bad, h = run_history(ops, rec.ctx)
                except core.HarnessError:
                    raise
                except Exception as e:  # noqa
                    if core.lib_frame(e) is None:
                        raise
                    bad, h = core.raised_failure(e, "history %r" % (list(combo),)), None
                finally:
                    rec.ctx.cleanup()
                rec.note_case({"alphabet": self.name, "alphabet_indices": list(combo)}, h.nontrivial() if h is not None else True,
                              sorted("history:" + f for f in h.flags) if h is not None else [])
                if bad is not None and rec.report(case, bad) is not None:
                    return
            if not complete:
                break
        rec.exhaustive = complete
        if not complete:
            rec.skipped_after_budget += 1
        rec.notes.append("all sequences of length <= %d over the %d-operation alphabet %r" % (self.depth[tier], len(ALPHABET), self.name))


LEGS = [MachineLeg(), ExhaustiveLeg("exhaustive", ALPHABET), ExhaustiveLeg("exhaustive-merge", MERGE_ALPHABET)]
