"""
C05  Duplicate keys are resolved exactly as the chosen merge_strategy says.

Oracle: gfv.refmodels.MergeModel (DESIGN A.1), a sequential model of the five strategies
written from the statement and database-ids.rst.  Compared: the id set, per id the
columns, attributes (exactly for untouched features, as key -> set without repeats for
merged ones), the 'error' outcome, and the relation table (Parent links of level 1 and
their level-2 closure; transcript/gene links for the GTF importer).
"""
import gc

from gfv import dbsnap
from gfv import textmodel as tm
from gfv.core import Failure
from gfv.refmodels import FIELDS, MergeModel, ModelAmbiguous, ModelError, gff_links, gtf_links_factory

PROP = "C05"
RULE = (
    "sequences of 2-7 features over 1-2 colliding keys with columns and attribute sets from tiny pools (equal / different "
    "columns, third arrivals matching an earlier <key>_n), Parent values naming stored parents with a grandparent; five "
    "strategies x subsets of force_merge_fields (incl. the rejected start/end); GFF3 importer and GTF importer (id_spec 'ID' or a list / tuple starting with it, "
    "inference off); everything through create_db, or the first m through create_db and the rest through update() (text "
    "path or Feature list; file or :memory: database). Non-trivial = both an equal-columns and a different-columns "
    "collision, or a third arrival on one key. Distinct by hash. (merge-histories) all sequences of up to 3 (quick) / 5 "
    "(thorough) operations over a merge-centred 8-operation alphabet (merge / create_unique updates of colliding records, deletes "
    "of the plain key and of <key>_1, reopen) against the same model."
)
ASSUMPTIONS = [
    "explicit ids never look like generated <key>_<n> names; Parent/transcript/gene values are single tokens",
    "merged attribute values are compared as sets (gffutils documents set semantics); untouched features exactly",
    "known finding D11 (replace keeps the replaced line's links) is reported as KNOWN-FINDING when, and only when, the extra "
    "relations are exactly links stated by replaced lines (or level-2 rows derived from them) and nothing is missing",
]

STRATEGIES = ["error", "warning", "replace", "create_unique", "merge"]
FORCE = ["seqid", "source", "featuretype", "score", "strand", "frame"]


def _rec_gff(r):
    a = tm.attrs_dict(r)
    return {"id": a["ID"][0], "cols": tm.expected_cols(r), "attrs": a}


def _dialect(gtf):
    return {"style": "gtf" if gtf else "gff3", "sep": "; " if gtf else ";", "trailing": bool(gtf), "repeated": False}


class SeqLeg(object):
    kind = "hyp"
    name = "sequences"
    budget = {"quick": (16, 500), "thorough": (16, 8000)}

    def strategy(self):
        from hypothesis import strategies as st

        @st.composite
        def case(draw):
            gtf = draw(st.integers(0, 2)) == 0
            strategy = draw(st.sampled_from(STRATEGIES + ["merge", "merge", "replace", "warning", "create_unique"]))
            fmf = draw(st.lists(st.sampled_from(FORCE), unique=True, max_size=2 if strategy != "merge" else 3))
            if strategy == "merge" and draw(st.integers(0, 11)) == 0:
                fmf = fmf + [draw(st.sampled_from(["start", "end"]))]
            n = draw(st.integers(2, 7))
            keys = ["a"] if draw(st.booleans()) else ["a", "b"]
            recs = []
            for i in range(n):
                k = draw(st.sampled_from(keys + ["a"]))
                cols = [
                    draw(st.sampled_from(["chr1", "chr1", "chr2"])),
                    draw(st.sampled_from(["s1", "s1", "s2"])),
                    draw(st.sampled_from(["exon", "exon", "CDS"])),
                    draw(st.sampled_from(["10", "10", "15", "."])),
                    draw(st.sampled_from(["50", "50", "60", "."])),
                    draw(st.sampled_from([".", ".", "5"])),
                    draw(st.sampled_from(["+", "+", "-"])),
                    draw(st.sampled_from([".", ".", "0"])),
                ]
                attrs = [["ID", [k]]]
                if gtf:
                    g = draw(st.sampled_from(["g1", "g1", "g2"]))
                    t = draw(st.sampled_from(["t1", "t1", "t2"]))
                    attrs = [["gene_id", [g]], ["transcript_id", [t]]] + attrs
                else:
                    ps = draw(st.lists(st.sampled_from(["p1", "p2", "ghost"]), unique=True, max_size=2))
                    if ps:
                        attrs.append(["Parent", ps])
                nv = draw(st.lists(st.sampled_from(["x", "y", "z"]), max_size=2))
                if nv:
                    attrs.append(["Note", nv])
                if draw(st.integers(0, 2)) == 0:
                    attrs.append(["Name", [draw(st.sampled_from(["n1", "n2"]))]])
                while len(attrs) < 2:
                    attrs.append(["pad", ["1"]])
                recs.append({"cols": cols, "attrs": attrs, "extras": []})
            split = draw(st.one_of(st.just(n), st.integers(1, n - 1), st.integers(1, n - 1)))
            return {
                "gtf": gtf, "strategy": strategy, "force": fmf, "records": recs, "split": split,
                "update_form": draw(st.sampled_from(["path", "features"])),
                "file_db": draw(st.booleans()),
                "verbose": draw(st.sampled_from([False, False, True, "debug"])),
                "id_spec_form": draw(st.sampled_from(["str", "str", "list", "tuple"])),
            }

        return case()

    # -- model
    def _model(self, case):
        gtf = case["gtf"]
        m = MergeModel(case["strategy"], [f for f in case["force"] if f in FORCE],
                       links=gtf_links_factory() if gtf else gff_links, level2_closure=not gtf)
        pre = self._parents(gtf)
        for r in pre:
            m.add(_rec_gff(r))
        outcome = []
        try:
            for r in case["records"]:
                outcome.append(m.add(_rec_gff(r)))
        except ModelError:
            return m, "error", outcome
        return m, "ok", outcome

    @staticmethod
    def _parents(gtf):
        if gtf:
            return []
        mk = lambda i, par: {"cols": ["chr1", "s0", "gene", "1", "100", ".", "+", "."],
                             "attrs": [["ID", [i]]] + ([["Parent", [par]]] if par else []) + [["kind", ["parent"]]], "extras": []}
        return [mk("gp", None), mk("p1", "gp"), mk("p2", "gp")]

    def classify(self, case):
        recs = [_rec_gff(r) for r in case["records"]]
        byk = {}
        for r in recs:
            byk.setdefault(r["id"], []).append(r)
        eq = diff = third = False
        for k, rs in byk.items():
            if len(rs) >= 3:
                third = True
            for i in range(1, len(rs)):
                if rs[i]["cols"] == rs[0]["cols"]:
                    eq = True
                else:
                    diff = True
        labels = ["strategy=" + case["strategy"], "gtf" if case["gtf"] else "gff3",
                  "create+update" if case["split"] < len(case["records"]) else "create only"]
        if case["force"]:
            labels.append("force_merge_fields")
        if third:
            labels.append("third-arrival")
        if not (eq or diff):
            labels.append("no-collision")
        return (eq and diff) or third, labels

    def check(self, case, ctx):
        import gffutils
        from gffutils.feature import feature_from_line

        gtf = case["gtf"]
        d = _dialect(gtf)
        strategy = case["strategy"]
        force = list(case["force"])
        pre = self._parents(gtf)
        recs = case["records"]
        split = case["split"]
        first = pre + recs[:split]
        rest = recs[split:]
        # the list / tuple forms name the same key here (every record has an ID); later-listed names are ordinary attributes
        kw = dict(merge_strategy=strategy, id_spec={"list": ["ID", "Name"], "tuple": ("ID", "Note", "Name")}.get(case.get("id_spec_form"), "ID"))
        if case.get("verbose"):
            kw["verbose"] = case["verbose"]  # reporting only: must not change the outcome
        if force:
            kw["force_merge_fields"] = force
        if gtf:
            kw.update(disable_infer_genes=True, disable_infer_transcripts=True)
        try:
            model, outcome, _ = self._model(case)
        except ModelAmbiguous:
            ctx.count("excluded: ambiguous merge target")
            return None
        bad_force = strategy == "merge" and bool(set(force) & {"start", "end"})
        path1 = ctx.write("one.txt", "\n".join(tm.render_line(r, d) for r in first) + "\n")
        dbfn = ctx.path("m.db") if case["file_db"] else ":memory:"

        # does the model expect an error in the create part / the update part?
        def model_prefix_error(nrec):
            m = MergeModel(strategy, [f for f in force if f in FORCE], links=gtf_links_factory() if gtf else gff_links,
                           level2_closure=not gtf)
            try:
                for r in pre + recs[:nrec]:
                    m.add(_rec_gff(r))
            except ModelError:
                return True
            return False

        db = None
        try:
            try:
                db = gffutils.create_db(path1, dbfn, **kw)
                created = True
            except ValueError as e:
                created = False
                err = e
            if bad_force:
                if created:
                    return Failure("merge with force_merge_fields=%r was accepted (start/end cannot be merged)" % force,
                                   sig={"kind": "bad-force-accepted"})
                return None
            exp_err_create = model_prefix_error(split)
            if exp_err_create:
                if created:
                    return Failure("strategy 'error': create_db did not raise on a duplicate key", sig={"kind": "error-not-raised"})
                if "uplicate" not in str(err):
                    return Failure("strategy 'error': create_db raised %r" % (err,), sig={"kind": "error-other"})
                return None
            if not created:
                return Failure("create_db raised %s: %s (strategy %s)" % (type(err).__name__, err, strategy),
                               sig={"kind": "raised", "exc": type(err).__name__, "where": "create_db"})
            if rest:
                ukw = dict(kw)
                if case["update_form"] == "path":
                    data = ctx.write("two.txt", "\n".join(tm.render_line(r, d) for r in rest) + "\n")
                else:
                    data = [feature_from_line(tm.render_line(r, d)) for r in rest]
                try:
                    db.update(data, make_backup=False, **ukw)
                    updated = True
                except ValueError as e:
                    updated = False
                    err = e
                if outcome == "error":
                    if updated:
                        return Failure("strategy 'error': update() did not raise on a duplicate key", sig={"kind": "error-not-raised"})
                    return None
                if not updated:
                    return Failure("update() raised %s: %s (strategy %s)" % (type(err).__name__, err, strategy),
                                   sig={"kind": "raised", "exc": type(err).__name__, "where": "update"})
            if case["file_db"]:
                db.conn.close()
                db = gffutils.FeatureDB(dbfn)
            snap = dbsnap.snapshot(db)
        finally:
            if db is not None and case["file_db"]:
                try:
                    db.conn.close()
                except Exception:  # noqa
                    pass
            db = None
            if outcome == "error":
                gc.collect()

        # ---- compare with the model
        got = dict((row["id"], row) for row in snap["features"])
        if len(got) != len(snap["features"]):
            return Failure("duplicate ids in the features table", sig={"kind": "dup-ids"})
        if set(got) != set(model.store):
            return Failure(
                "strategy %s: stored ids %r, model %r" % (strategy, sorted(got), sorted(model.store)),
                sig={"kind": "id-set", "strategy": strategy},
            )
        for fid, m in model.store.items():
            row = got[fid]
            if row["cols"] != m["cols"]:
                bad = [FIELDS[i] for i in range(8) if row["cols"][i] != m["cols"][i]]
                kind = "forced-column" if set(bad) <= set(force) else "columns"
                return Failure("strategy %s: feature %r columns %r, model %r" % (strategy, fid, row["cols"], m["cols"]),
                               sig={"kind": kind, "strategy": strategy})
            have = dict((k, v) for k, v in row["attrs"])
            if m["merged"]:
                for k, v in have.items():
                    if len(v) != len(set(v)):
                        return Failure("strategy merge: feature %r attribute %r has repeated values %r" % (fid, k, v),
                                       sig={"kind": "merged-repeats"})
                if dict((k, sorted(v)) for k, v in have.items()) != dict((k, sorted(v)) for k, v in m["attrs"].items()):
                    return Failure("strategy merge: feature %r attributes %r, model (as sets) %r" % (fid, have, m["attrs"]),
                                   sig={"kind": "merged-attrs"})
            else:
                if have != m["attrs"] or list(have) != list(m["attrs"]):
                    return Failure("strategy %s: feature %r attributes %r, model %r" % (strategy, fid, have, m["attrs"]),
                                   sig={"kind": "attrs", "strategy": strategy})
        # relations
        have_rel = set(tuple(r) for r in snap["relations"])
        want_rel = model.relations()
        if have_rel != want_rel:
            missing = want_rel - have_rel
            extra = have_rel - want_rel
            tolerated = model.relations(model.rel | model.stale) - want_rel
            if not missing and extra and extra <= tolerated and strategy == "replace":
                return Failure(
                    "strategy replace: links of replaced lines are still recorded: %r" % sorted(extra),
                    sig={"kind": "stale-parent-link", "strategy": "replace"},
                )
            return Failure(
                "strategy %s (%s): relations differ from the model: missing %r, extra %r"
                % (strategy, "gtf" if gtf else "gff3", sorted(missing), sorted(extra)),
                sig={"kind": "relations", "strategy": strategy, "missing": bool(missing), "extra": bool(extra)},
            )
        return None


def _merge_histories():
    # all update/delete/reopen sequences over a merge-centred alphabet, against the same MergeModel (shared with C10)
    from gfv.props import c10

    return c10.ExhaustiveLeg("merge-histories", c10.MERGE_ALPHABET, {"quick": 3, "thorough": 5})


LEGS = [SeqLeg(), _merge_histories()]
