"""
C07  Parsing a line and printing it reproduces the line in every consistent dialect.

Oracle: the text model's record is the expected parse (columns, ordered decoded
values); str(feature_from_line(line, keep_order=True)) == line.  Second relation
(metamorphic): a nine-column line rendered with runs of spaces instead of tabs
parses, with strict=False, to a Feature equal to the tab rendering's.
"""
from gfv import textmodel as tm
from gfv.core import Failure

PROP = "C07"
RULE = (
    "lines rendered from the text model: style x separator x trailing-semicolon x comma-list/repeated-keys, "
    "0-5 attributes incl. value-less flags, values over a reserved-character-rich alphabet and arbitrary Unicode "
    "(upper-case percent-escapes in gff3/gff2 styles), 0-3 extra columns, '.' coordinates, empty attribute column. "
    "Non-trivial = at least 2 attributes and (a non-default dialect entry or a percent-escape or an extra column); "
    "distinct by hash of the case. (fuzz_strict) an atheris campaign decodes bytes into a text-model record through "
    "FuzzedDataProvider and applies the same oracle; counted conservatively by final corpus units of >= 8 bytes."
)
ASSUMPTIONS = [
    "decoded values have no leading/trailing whitespace and, in unquoted styles, neither begin nor end with a double quote (DESIGN section 3)",
    "raw '%' appears only as an upper-case escape of a reserved character in gff3/gff2 text",
    "first attribute key matches \\w+; flags are never first; repeated keys are adjacent",
    "space-rendering relation: columns 1-8 contain no whitespace, no extra columns, the line is one line under str.splitlines",
]


def _compare_parse(f, rec, line):
    exp = tm.expected_cols(rec)
    got = [f.seqid, f.source, f.featuretype, f.start, f.end, f.score, f.strand, f.frame]
    if got != exp:
        return Failure("columns differ: got %r expected %r" % (got, exp), sig={"kind": "columns"})
    want = tm.attrs_dict(rec)
    have = dict((k, list(v)) for k, v in f.attributes.items())
    if list(have.keys()) != list(want.keys()) or have != want:
        return Failure(
            "attributes differ: got %r expected %r (line %r)" % (list(have.items()), list(want.items()), line),
            sig={"kind": "attributes"},
        )
    if list(f.extra) != list(rec.get("extras") or []):
        return Failure("extra columns differ: %r vs %r" % (f.extra, rec.get("extras")), sig={"kind": "extras"})
    return None


class StrictLeg(object):
    kind = "hyp"
    name = "strict"
    budget = {"quick": (8, 2500), "thorough": (16, 50000)}

    def strategy(self):
        S = tm.strategies()
        st = S.st

        @st.composite
        def case(draw):
            d = draw(S.dialect)
            rec = draw(S.record(d["style"], min_n=0, max_n=5, empty_items=not d["repeated"]))
            return {"dialect": d, "rec": rec, "dot_col": draw(st.integers(0, 19)) == 0, "lower_escapes_before": draw(st.integers(0, 19)) == 0}

        return case()

    def classify(self, case):
        d, rec = case["dialect"], case["rec"]
        line = tm.render_line(rec, d)
        nd = d["style"] != "gff3" or d["sep"] != ";" or d["trailing"] or d["repeated"]
        esc = "%" in tm.render_attrs(rec["attrs"], d) and d["style"] != "gtf"
        nt = len(rec["attrs"]) >= 2 and (nd or esc or bool(rec["extras"]))
        labels = ["style=" + d["style"], "sep=%r" % d["sep"]]
        if d["trailing"]:
            labels.append("trailing")
        if d["repeated"] and any(len(v) > 1 for _, v in rec["attrs"]):
            labels.append("repeated-multi")
        if (not d["repeated"]) and any(len(v) > 1 for _, v in rec["attrs"]):
            labels.append("comma-multi")
        if esc:
            labels.append("escape")
        if rec["extras"]:
            labels.append("extras")
        if "." in (rec["cols"][3], rec["cols"][4]):
            labels.append("dot-coord")
        if not rec["attrs"]:
            labels.append("empty-attrs")
        if any(not v for _, v in rec["attrs"]):
            labels.append("flag")
        return nt, labels

    def check(self, case, ctx):
        from gffutils.feature import feature_from_line

        d, rec = case["dialect"], case["rec"]
        if case.get("lower_escapes_before"):
            # text outside the grammar (lower-case escapes) parsed earlier in the process does not change how lines print later
            feature_from_line("chr1\t.\tgene\t1\t2\t.\t+\t.\tNote=a%3bb%2c%3d%26%25%09c;k=%0a")
        if case.get("dot_col"):
            # an attribute column that is exactly '.' is printed back as it came in
            for tail in ([], rec["extras"]):
                dl = "\t".join(list(rec["cols"]) + ["."] + list(tail))
                got = str(feature_from_line(dl, keep_order=True))
                if got != dl:
                    return Failure("printed line differs:\n in: %r\nout: %r" % (dl, got), sig={"kind": "bytes", "col9": "."})
        line = tm.render_line(rec, d)
        if not rec["attrs"]:
            # an empty attribute column stays empty when the file's dialect is supplied (as it is for every line after the first)
            got = str(feature_from_line(line, dialect=tm.lib_dialect(d), keep_order=True))
            if got != line:
                return Failure("printed line differs (dialect supplied):\n in: %r\nout: %r" % (line, got), sig={"kind": "bytes", "dialect": "supplied"})
        f = feature_from_line(line, keep_order=True)
        bad = _compare_parse(f, rec, line)
        if bad:
            return bad
        out = str(f)
        if out != line:
            return Failure("printed line differs:\n in: %r\nout: %r" % (line, out), sig={"kind": "bytes"})
        # printing (and comparing / hashing, which print) is repeatable and leaves the parsed values alone
        hash(f)
        again = str(f)
        if again != line:
            return Failure("second print of the same Feature differs:\n 1st: %r\n 2nd: %r" % (out, again), sig={"kind": "bytes-second-print"})
        bad = _compare_parse(f, rec, line)
        if bad:
            bad.msg = "after printing: " + bad.msg
            bad.sig["kind"] = "attributes-after-print"
            return bad
        # features parsed from separate calls are independent objects: editing one (its dialect, its attributes)
        # does not change how the other prints
        g = feature_from_line(line, keep_order=True)
        h = feature_from_line(line, keep_order=True)
        if isinstance(h.dialect, dict):
            h.dialect["trailing semicolon"] = not h.dialect.get("trailing semicolon")
            h.dialect["field separator"] = " ; " if h.dialect.get("field separator") != " ; " else ";"
        h.attributes["added_later"] = ["1"]
        if str(g) != line:
            return Failure("editing one parsed Feature changed how another Feature parsed from the same text prints: %r" % str(g),
                           sig={"kind": "shared-state"})
        k = feature_from_line(line, keep_order=True)
        if str(k) != line or "added_later" in k.attributes:
            return Failure("a later parse of the same text is affected by edits to an earlier result: %r" % str(k),
                           sig={"kind": "shared-state"})
        # a trailing line break is not part of the line
        for nl in ("\n", "\r\n"):
            g = feature_from_line(line + nl, keep_order=True)
            if str(g) != line:
                return Failure("line + %r prints %r" % (nl, str(g)), sig={"kind": "bytes-newline"})
        return None


_SPLITLINES_BREAKS = set("\n\r\x0b\x0c\x1c\x1d\x1e\x85  ")


class SpacesLeg(object):
    kind = "hyp"
    name = "spaces"
    budget = {"quick": (8, 1200), "thorough": (16, 20000)}

    def strategy(self):
        S = tm.strategies()
        st = S.st
        nows = st.text(
            alphabet=st.characters(blacklist_categories=("Cs", "Cc", "Zs", "Zl", "Zp")), min_size=1, max_size=6
        ).filter(lambda s: not any(ch.isspace() for ch in s))

        @st.composite
        def case(draw):
            d = draw(S.dialect)
            rec = draw(S.record(d["style"], min_n=0, max_n=4, with_extras=False))
            for i in (0, 1, 2, 5):
                if any(ch.isspace() for ch in rec["cols"][i]):
                    rec["cols"][i] = draw(nows)
            gaps = draw(st.lists(st.integers(1, 3), min_size=8, max_size=8))
            return {"dialect": d, "rec": rec, "gaps": gaps, "lead": draw(st.integers(0, 2)), "nl": draw(st.booleans())}

        return case().filter(
            lambda c: not (_SPLITLINES_BREAKS & set(tm.render_attrs(c["rec"]["attrs"], c["dialect"])))
        )

    def classify(self, case):
        rec, d = case["rec"], case["dialect"]
        nt = len(rec["attrs"]) >= 2 and (" " in tm.render_attrs(rec["attrs"], d))
        return nt, ["style=" + d["style"]] + (["attr-has-space"] if nt else [])

    def check(self, case, ctx):
        from gffutils.feature import feature_from_line

        d, rec = case["dialect"], case["rec"]
        attr = tm.render_attrs(rec["attrs"], d)
        tabline = "\t".join(list(rec["cols"]) + [attr])
        sp = ""
        for col, gap in zip(rec["cols"], case["gaps"]):
            sp += col + " " * gap
        sp = " " * case["lead"] + sp + attr
        if case["nl"]:
            sp = "\n" + sp + "\n"
        a = feature_from_line(tabline, strict=False, keep_order=True)
        b = feature_from_line(sp, strict=False, keep_order=True)
        if not (a == b) or str(a) != str(b):
            return Failure("space rendering parses differently:\n tab: %r\n  sp: %r" % (str(a), str(b)),
                           sig={"kind": "spaces"})
        c = feature_from_line(tabline, keep_order=True)
        if not (c == b) or str(c) != str(b):
            return Failure("space rendering parsed with strict=False differs from the strict parse of the tab rendering:\n tab: %r\n  sp: %r"
                           % (str(c), str(b)), sig={"kind": "spaces"})
        if dict(a.attributes.items()) != dict(b.attributes.items()):
            return Failure("space rendering gives different attributes", sig={"kind": "spaces-attrs"})
        if attr:
            bad = _compare_parse(b, rec, sp)
            if bad:
                return bad
        return None


from gfv.fuzzleg import FuzzLeg  # noqa: E402

LEGS = [StrictLeg(), SpacesLeg(),
        FuzzLeg("fuzz_strict", "c07", {"quick": (1, 15000), "thorough": (4, 400000)}, lambda b: len(b) >= 8, None, max_len=128)]
