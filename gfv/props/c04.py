"""
C04  Primary keys follow id_spec, are unique, and look-ups are exact.

Oracle: ref_ids(), a reference implementation of the id_spec rules as written in
database-ids.rst / the create_db docstring (not of _id_handler).
"""
import re

from gfv import textmodel as tm
from gfv.core import Failure

PROP = "C04"
RULE = (
    "GFF3 and GTF files of 1-10 records that have, lack or multiply define ID / Name / Alias / gene_id / transcript_id, "
    "imported under id_spec in {None, 'ID', 'Name', ['ID','Name'], ['Name','ID'], ('Alias','ID'), dict of str or list, "
    "a defaultdict with a default entry, ':seqid:' ':source:' ':strand:' ':featuretype:', callables returning None / an attribute-derived string / "
    "'autoincrement:'+seqid}; merge_strategy error when the reference ids are unique, create_unique otherwise; a labelled share of "
    "cases delivers the tail through one or two update() calls (same handle, or after deleting one uniquely-keyed feature and "
    "reopening the file). "
    "Non-trivial = some record needs fall-through or auto-numbering, or the id attribute is multi-valued. Distinct by hash."
)
ASSUMPTIONS = [
    "explicit id values never have the shape <x>_<digits> and never equal a featuretype (generated names share one counter namespace)",
    "id attributes are never value-less flags",
    "lines are written in a dialect every line exhibits, so look-ups can be compared byte for byte with the input line",
]

SPECS = ["default", "ID", "Name", "ID,Name", "Name,ID", "Alias,ID", "dict", "dict2", ":seqid:", ":source:", ":strand:", ":featuretype:",
         "call_none", "call_name", "call_auto", "call_mixed", "call_auto_colon", "ddict"]


def spec_object(name, gtf):
    if name == "default":
        return None
    if name in ("ID", "Name", ":seqid:", ":source:", ":strand:", ":featuretype:"):
        return name
    if name == "ID,Name":
        return ["ID", "Name"]
    if name == "Name,ID":
        return ["Name", "ID"]
    if name == "Alias,ID":
        return ("Alias", "ID")
    if name == "dict":
        return {"gene": "Name", "mRNA": ["ID", "Name"]}
    if name == "dict2":
        return {"gene": "gene_id", "exon": ["Alias", "Name"], "transcript": "transcript_id"}
    if name == "ddict":
        # a dict subclass that supplies the entry of unlisted featuretypes itself
        import collections

        return collections.defaultdict(lambda: "Name", gene="ID")
    if name == "call_none":
        return lambda f: None
    if name == "call_name":
        return lambda f: ("N:" + f.attributes["Name"][0]) if "Name" in f.attributes and f.attributes["Name"] else None
    if name == "call_auto":
        return lambda f: "autoincrement:" + f.seqid
    if name == "call_auto_colon":
        return lambda f: "autoincrement:" + f.seqid + ":" + f.featuretype
    if name == "call_mixed":
        return lambda f: ("autoincrement:" + f.featuretype + "X") if f.strand == "-" else (
            f.attributes["ID"][0] if "ID" in f.attributes and f.attributes["ID"] else None)
    raise AssertionError(name)


def ref_ids(records, spec, gtf):
    """-> (ids, multi) where multi is True if some selected id attribute has several values.
    Ids BEFORE duplicate resolution (the requested keys)."""
    counters = {}
    out = []
    multi = False

    def auto(base):
        counters[base] = counters.get(base, 0) + 1
        return "%s_%d" % (base, counters[base])

    for r in records:
        a = tm.attrs_dict(r)
        ft = r["cols"][2]
        fields = {":seqid:": r["cols"][0], ":source:": r["cols"][1], ":featuretype:": ft, ":strand:": r["cols"][6]}
        s = spec
        if s == "default":
            keys = {"gene": ["gene_id"], "transcript": ["transcript_id"]}.get(ft) if gtf else ["ID"]
        elif s in ("ID", "Name"):
            keys = [s]
        elif s in fields:
            out.append(fields[s])
            continue
        elif s in ("ID,Name", "Name,ID", "Alias,ID"):
            keys = s.split(",")
        elif s == "dict":
            keys = {"gene": ["Name"], "mRNA": ["ID", "Name"]}.get(ft)
        elif s == "dict2":
            keys = {"gene": ["gene_id"], "exon": ["Alias", "Name"], "transcript": ["transcript_id"]}.get(ft)
        elif s == "ddict":
            keys = ["ID"] if ft == "gene" else ["Name"]
        elif s == "call_none":
            keys = None
        elif s == "call_name":
            if a.get("Name"):
                out.append("N:" + a["Name"][0])
                continue
            keys = None
        elif s == "call_auto":
            out.append(auto(r["cols"][0]))
            continue
        elif s == "call_auto_colon":
            out.append(auto(r["cols"][0] + ":" + ft))
            continue
        elif s == "call_mixed":
            if r["cols"][6] == "-":
                out.append(auto(ft + "X"))
                continue
            if a.get("ID"):
                out.append(a["ID"][0])
                continue
            keys = None
        else:
            raise AssertionError(s)
        chosen = None
        for k in keys or []:
            if k in a and a[k]:
                if len(a[k]) > 1:
                    multi = True
                chosen = a[k][0]
                break
        out.append(chosen if chosen is not None else auto(ft))
    return out, multi


def resolve_unique(keys):
    """create_unique: later arrivals under <key>_1, <key>_2, ..."""
    seen = set()
    cnt = {}
    out = []
    for k in keys:
        if k in seen:
            cnt[k] = cnt.get(k, 0) + 1
            k = "%s_%d" % (k, cnt[k])
        seen.add(k)
        out.append(k)
    return out


class IdsLeg(object):
    kind = "hyp"
    name = "ids"
    budget = {"quick": (8, 400), "thorough": (16, 6000)}

    def strategy(self):
        from hypothesis import strategies as st

        val_all = st.one_of(st.sampled_from(["a", "b", "g1", "X", "x y", "é1", "A.1", "Gene", "a;b", "p,q", "k=v"]),
                        st.from_regex(r"[A-Za-z][A-Za-z0-9.:\-]{0,5}", fullmatch=True))

        @st.composite
        def case(draw):
            gtf = draw(st.integers(0, 2)) == 0
            n = draw(st.integers(1, 10))
            val = val_all.filter(lambda v: not any(c in v for c in ';,"')) if gtf else val_all
            recs = []
            for i in range(n):
                ft = draw(st.sampled_from(["gene", "mRNA", "exon", "CDS", "transcript"]))
                attrs = []
                keys = ["gene_id", "transcript_id", "ID", "Name", "Alias"] if gtf else ["ID", "Name", "Alias", "gene_id", "Note"]
                if gtf:
                    attrs.append(["gene_id", [draw(val)]])
                    attrs.append(["transcript_id", [draw(val)]])
                    rest = keys[2:]
                else:
                    rest = keys
                for k in rest:
                    z = draw(st.integers(0, 9))
                    if z < 5:
                        attrs.append([k, [draw(val)]])
                    elif z == 5 and not gtf:
                        attrs.append([k, draw(st.lists(val, min_size=2, max_size=3))])
                if len(attrs) < 2:
                    attrs.append(["zz", ["1"]])
                    attrs.append(["zy", ["2"]])
                if not gtf and not re.fullmatch(r"\w+", attrs[0][0]):
                    attrs.insert(0, ["lead", ["v"]])
                start = draw(st.integers(1, 1000))
                recs.append({"cols": [draw(st.sampled_from(["chr1", "chr2", "c"])), draw(st.sampled_from(["s1", "s2"])), ft,
                                      str(start), str(start + draw(st.integers(0, 50))), ".", draw(st.sampled_from(["+", "-"])), "."],
                             "attrs": attrs, "extras": []})
            return {"gtf": gtf, "records": recs, "spec": draw(st.sampled_from(SPECS)), "split": draw(st.sampled_from([0, 0, 1, 2, n // 2])), "split2": draw(st.sampled_from([0, n // 2 + 1, n - 1])),
                    "replace_tail": draw(st.booleans()),
                    "file_db": draw(st.booleans()),
                    "delete_reopen": draw(st.booleans()), "victim": draw(st.integers(0, 9)),
                    "dup_strategy": draw(st.sampled_from(["create_unique", "create_unique", "merge"])),
                    "probe": draw(st.sampled_from(["x", "", "%", "_", "UP", "low", "pre", "sp"]))}

        def ok(c):
            fts = set(r["cols"][2] for r in c["records"])
            for r in c["records"]:
                for k, vs in r["attrs"]:
                    for v in vs:
                        if re.search(r"_\d+$", v) or v in fts:
                            return False
            return True

        return case().filter(ok)

    def classify(self, case):
        keys, multi = ref_ids(case["records"], case["spec"], case["gtf"])
        auto = any(re.search(r"_\d+$", k) for k in keys)
        dup = len(set(keys)) < len(keys)
        labels = ["spec=" + case["spec"], "gtf" if case["gtf"] else "gff3"]
        if multi:
            labels.append("multi-valued-id")
        if dup:
            labels.append("duplicate-keys")
        if auto:
            labels.append("auto-numbered")
        if case.get("split") and 0 < case["split"] < len(case["records"]):
            labels.append("tail-through-update")
            if case.get("delete_reopen") and case.get("file_db"):
                labels.append("delete-and-reopen-before-the-tail")
        return auto or multi or case["spec"] in ("ID,Name", "Name,ID", "Alias,ID", "dict", "dict2"), labels

    def check(self, case, ctx):
        import gffutils
        from gffutils.exceptions import FeatureNotFoundError

        recs, gtf = case["records"], case["gtf"]
        d = {"style": "gtf" if gtf else "gff3", "sep": "; " if gtf else ";", "trailing": gtf, "repeated": False}
        lines = [tm.render_line(r, d) for r in recs]
        path = ctx.write("i.txt", "\n".join(lines) + "\n")
        keys, multi = ref_ids(recs, case["spec"], gtf)
        dup = len(set(keys)) < len(keys)
        dup_strategy = "create_unique"
        if dup and case.get("dup_strategy") == "merge":
            # 'merge' files a newcomer whose columns differ from every stored feature under its key exactly like
            # create_unique (and records the renaming); used only when all lines sharing a key differ in their columns
            seen = set()
            if all(not ((kk, tuple(r["cols"])) in seen or seen.add((kk, tuple(r["cols"])))) for kk, r in zip(keys, recs)):
                dup_strategy = "merge"
        kw = dict(id_spec=spec_object(case["spec"], gtf), merge_strategy=dup_strategy if dup else "error", keep_order=False)
        if gtf:
            kw.update(disable_infer_genes=True, disable_infer_transcripts=True)
        if multi:
            try:
                db = gffutils.create_db(path, ":memory:", **kw)
            except ValueError:
                ctx.count("multi-valued id rejected")
                return None
            except Exception as e:  # noqa
                return Failure("multi-valued id attribute: create_db raised %s instead of rejecting it with ValueError: %s"
                               % (type(e).__name__, e), sig={"kind": "multi-wrong-exception"})
            ids = [f.id for f in db.all_features()]
            return Failure("an id attribute with several values was accepted; stored ids %r" % ids, sig={"kind": "multi-accepted"})
        k = case.get("split") or 0
        deleted = None
        replace_tail = bool(case.get("replace_tail")) and dup and 0 < k < len(recs)
        if 0 < k < len(recs):
            # the tail arrives through one or two update() calls on the same handle with the same id_spec:
            # numbering continues, look-ups follow
            k2 = case.get("split2") or 0
            cuts = [k] + ([k2] if k < k2 < len(recs) else []) + [len(recs)]
            p1 = ctx.write("i1.txt", "\n".join(lines[:k]) + "\n")
            dbfn = ctx.path("ids.db") if case.get("file_db") else ":memory:"
            ckw = dict(kw)
            if replace_tail and len(set(keys[:k])) < k:
                replace_tail = False  # duplicates inside the first part: keep create_unique throughout
            if replace_tail:
                ckw["merge_strategy"] = "error"
            db = gffutils.create_db(p1, dbfn, **ckw)
            for f in list(db.all_features()):
                db[f.id]  # looked at before the update
            singles = [i for i in range(k) if keys.count(keys[i]) == 1]
            if case.get("delete_reopen") and case.get("file_db") and singles:
                # one feature of the first part (its key requested by no other line) is deleted and the file is reopened
                # before the tail arrives: numbering continues where it was, whatever the counters are named after
                deleted = singles[case.get("victim", 0) % len(singles)]
                db.delete(keys[deleted], make_backup=False)
                db.conn.close()
                db = gffutils.FeatureDB(dbfn, keep_order=False)
                ctx.count("delete and reopen before the tail")
            ukw = dict((a, b) for a, b in kw.items() if a != "keep_order" and not (a == "id_spec" and b is None))
            if replace_tail:
                ukw["merge_strategy"] = "replace"
            for a, b in zip(cuts, cuts[1:]):
                db.update(ctx.write("i2.txt", "\n".join(lines[a:b]) + "\n"), make_backup=False, **ukw)
                for f in list(db.all_features()):
                    db[f.id]
        else:
            db = gffutils.create_db(path, ":memory:", **kw)
        if replace_tail:
            # 'replace': one feature per key (first-seen position), holding the last line that claimed the key
            want = []
            last = {}
            for kk, line in zip(keys, lines):
                if kk not in last:
                    want.append(kk)
                last[kk] = line
            lines = [last[kk] for kk in want]
            if deleted is not None:
                lines = [l for kk, l in zip(want, lines) if kk != keys[deleted]]
                want = [kk for kk in want if kk != keys[deleted]]
        else:
            want = resolve_unique(keys) if dup else list(keys)
            if deleted is not None:
                want = want[:deleted] + want[deleted + 1:]
                lines = lines[:deleted] + lines[deleted + 1:]
        feats = list(db.all_features())
        got = [f.id for f in feats]
        if got != want:
            return Failure("id_spec=%s: stored ids %r, reference %r" % (case["spec"], got, want), sig={"kind": "ids", "spec": case["spec"]})
        if len(set(got)) != len(got):
            return Failure("ids not unique: %r" % got, sig={"kind": "not-unique"})
        for i, (k, line) in enumerate(zip(want, lines)):
            f = db[k]
            if str(f) != line or f.id != k:
                return Failure("db[%r] returned %r, the feature stored under it is %r" % (k, str(f), line), sig={"kind": "lookup"})
            g = db[feats[i]]
            if str(g) != line:
                return Failure("db[<Feature %r>] returned %r" % (k, str(g)), sig={"kind": "lookup-feature"})
        # absent keys
        base = want[len(want) // 2]
        probes = {"x": base + "x", "": "", "%": "%", "_": base[:-1] + "_", "UP": base.upper(), "low": base.lower(), "pre": base[:-1], "sp": " " + base + " "}
        probe = probes[case["probe"]]
        if probe not in want:
            try:
                f = db[probe]
            except FeatureNotFoundError as e:
                if e.feature_id != probe:
                    return Failure("FeatureNotFoundError carries %r, key was %r" % (e.feature_id, probe), sig={"kind": "notfound-key"})
                ctx.count("absent key raised")
            else:
                return Failure("db[%r] (absent key) returned %r" % (probe, str(f)), sig={"kind": "absent-found"})
        # a key whose later arrivals were filed as <key>_1 ... is deleted: it is absent from then on, <key>_1 is not
        if dup and not replace_tail:
            k0 = next((kk for kk in want if kk + "_1" in want), None)
            if k0 is not None:
                line1 = lines[want.index(k0 + "_1")]
                stale = db[k0]
                db.delete(k0, make_backup=False)
                handles = [db]
                if case.get("file_db") and 0 < (case.get("split") or 0) < len(recs):
                    handles.append(gffutils.FeatureDB(db.dbfn, keep_order=False))
                for h in handles:
                    try:
                        f = h[k0]
                    except FeatureNotFoundError:
                        pass
                    else:
                        return Failure("db[%r] after delete(%r) returned %r" % (k0, k0, str(f)), sig={"kind": "absent-found", "after": "delete"})
                    try:
                        f = h[stale]  # a Feature fetched before the delete, used as the key
                    except FeatureNotFoundError:
                        pass
                    else:
                        return Failure("db[<Feature %r fetched before it was deleted>] returned %r" % (k0, str(f)),
                                       sig={"kind": "absent-found", "after": "delete", "key": "feature"})
                    if str(h[k0 + "_1"]) != line1:
                        return Failure("db[%r] after delete(%r) returned %r, stored %r" % (k0 + "_1", k0, str(h[k0 + "_1"]), line1),
                                       sig={"kind": "lookup"})
                ctx.count("deleted key with renamed duplicates probed")
        return None


LEGS = [IdsLeg()]
