"""
C12  Genomic binning is sound.

Oracle (DESIGN A.3), written from the statement with 0-based positions and
direct per-level shifts, not from bins.py:

  level k has bins of 2**(17+3k) bases, ids FIRST[k] + index, k = 0..4
  in range (gff): 1 <= start, 0 <= end < 2**29       (bed: start >= 0)
  one=True : out of range -> 1
             else an int naming a bin whose extent contains [start, end] and
             whose level is <= the level of the smallest bin containing
             [start, end+1]
  one=False: out of range -> {1}
             else {bins overlapping [start,end]} <= result <= {bins overlapping [start-1,end+1]}
"""
import itertools

from gfv import core
from gfv.core import Failure

PROP = "C12"
RULE = (
    "grid legs enumerate every pair of coordinates from the boundary grid "
    "{m*2^17+d} u {d} u {2^29+d}, d in -2..2 (quick: m*2^17 restricted to multiples of 2^20, plus all pairs "
    "inside the two finest bins around every 2^17 multiple); both one=True and one=False, gff and bed. "
    "Pairs are distinct by construction; a pair is non-trivial when an endpoint lies within 2 of a bin "
    "edge (all grid pairs). Random legs draw (start,end) anywhere in -5..2^29+5 and overlapping/nested "
    "interval pairs; non-trivial there = an endpoint within 2 of a multiple of 2^17. The stored_bin leg stores features whose "
    "coordinates were changed after construction (transform, edit before create_db, edit + update(replace)); non-trivial = the "
    "change moves the feature to another bin."
)
ASSUMPTIONS = [
    "bins() is a pure function of its arguments (no state between calls)",
    "the grid is exhaustive only for the stated finite sub-domain; elsewhere sampling",
]

MAXC = 2 ** 29
SH = (17, 20, 23, 26, 29)
FIRST = (4681, 585, 73, 9, 1)
NB = tuple(MAXC >> s for s in SH)  # bins per level


def in_range(s, e, fmt):
    lo = 1 if fmt == "gff" else 0
    return s >= lo and 0 <= e < MAXC


def expect_one(s1, e):
    """s1, e: 1-based closed interval, in range, s1 <= e + 1.
    Returns the set of acceptable bin ids."""
    x = s1 - 1  # 0-based position of first base
    y = e - 1  # 0-based position of last base
    z = e  # 0-based position of the following base
    if e < s1:  # empty interval: only the level bound applies
        y = x
        z = x if e + 1 < s1 else z
    kmin = next(k for k in range(5) if (x >> SH[k]) == (y >> SH[k]))
    kmax = next(k for k in range(5) if (x >> SH[k]) == (z >> SH[k]) or k == 4)
    kmax = max(kmax, kmin)
    return set(FIRST[k] + (x >> SH[k]) for k in range(kmin, kmax + 1))


def overlap_set(a1, b1):
    """All bins overlapping the 1-based closed interval [a1, b1] (clipped to the chromosome)."""
    a = max(a1, 1) - 1
    b = min(b1, MAXC) - 1
    out = set()
    if b < a:
        return out
    for k in range(5):
        out.update(range(FIRST[k] + (a >> SH[k]), FIRST[k] + (b >> SH[k]) + 1))
    return out


def check_pair(bins, s, e, fmt, one):
    """-> None or (message, sig)"""
    r = bins(s, e, fmt=fmt, one=one)
    s1 = s + 1 if fmt == "bed" else s
    if one:
        if type(r) is not int:
            return ("bins(%d, %d, fmt=%r) returned %r, not one integer" % (s, e, fmt, type(r).__name__),
                    {"kind": "not-int"})
        if not in_range(s, e, fmt):
            if r != 1:
                return ("bins(%d, %d, fmt=%r) = %d for out-of-range coordinates, expected 1" % (s, e, fmt, r),
                        {"kind": "out-of-range"})
            return None
        if e + 1 < s1 or s1 >= MAXC:  # reversed, or empty at the chromosome end: only "an int naming a bin"
            if not any(FIRST[k] <= r < FIRST[k] + NB[k] for k in range(5)):
                return ("bins(%d, %d) = %d names no bin" % (s, e, r), {"kind": "no-bin"})
            return None
        ok = expect_one(s1, e)
        if r not in ok:
            return ("bins(%d, %d, fmt=%r) = %d, acceptable %s" % (s, e, fmt, r, sorted(ok)), {"kind": "wrong-bin"})
        return None
    if not isinstance(r, (set, frozenset)) or not all(type(i) is int for i in r):
        return ("bins(%d, %d, one=False) returned %r" % (s, e, type(r).__name__), {"kind": "not-set"})
    if not in_range(s, e, fmt):
        if r != {1}:
            return ("bins(%d, %d, fmt=%r, one=False) = %s out of range, expected {1}" % (s, e, fmt, sorted(r)[:8]),
                    {"kind": "out-of-range"})
        return None
    if e + 1 < s1 or s1 >= MAXC:
        return None
    lower = overlap_set(s1, e)
    upper = overlap_set(s1 - 1, e + 1)
    if not lower <= r:
        return ("bins(%d, %d, fmt=%r, one=False) misses overlapping bins %s" % (s, e, fmt, sorted(lower - r)[:8]),
                {"kind": "set-misses"})
    if not r <= upper:
        return ("bins(%d, %d, fmt=%r, one=False) has non-overlapping bins %s" % (s, e, fmt, sorted(r - upper)[:8]),
                {"kind": "set-extra"})
    return None


def grid_points(step_shift):
    pts = set()
    for m in range(0, MAXC + 1, 1 << step_shift):
        for d in range(-2, 3):
            pts.add(m + d)
    for d in range(-2, 3):
        pts.add(d)
        pts.add(MAXC + d)
    return sorted(pts)


class GridLeg(object):
    kind = "custom"

    def __init__(self, name, one, budget, shifts):
        self.name = name
        self.one = one
        self.budget = budget
        self.shifts = shifts  # tier -> grid step shift

    # plain per-case interface (replay)
    def classify(self, case):
        return True, []

    def check(self, case, ctx):
        from gffutils.bins import bins

        r = check_pair(bins, case["start"], case["end"], case["fmt"], case["one"])
        if r is not None:
            return Failure(r[0], sig=r[1])
        return None

    def run(self, rec, tier, seed, shard, nshards, deadline):
        import time
        from gffutils.bins import bins

        pts = grid_points(self.shifts[tier])
        one = self.one
        n = 0
        samples = []
        complete = True
        # local neighbourhood pairs: everything inside the two finest bins around each 2^17 multiple
        fine = grid_points(17)
        for fmt in ("gff", "bed"):
            for i in range(shard, len(pts), nshards):
                s = pts[i]
                if time.monotonic() > deadline:
                    complete = False
                    break
                for e in pts:
                    try:
                        r = check_pair(bins, s, e, fmt, one)
                    except Exception as ex:  # noqa
                        if core.lib_frame(ex) is None:
                            raise
                        f = core.raised_failure(ex, "bins(%d, %d, fmt=%r, one=%r)" % (s, e, fmt, one))
                        rec.report({"start": s, "end": e, "fmt": fmt, "one": one}, f)
                        rec.count_bulk(n, n)
                        return
                    n += 1
                    if r is not None:
                        rec.report({"start": s, "end": e, "fmt": fmt, "one": one}, Failure(r[0], sig=r[1]))
                        rec.count_bulk(n, n)
                        return
                if len(samples) < 3:
                    samples.append({"start": s, "end": pts[(i * 7) % len(pts)], "fmt": fmt, "one": one})
            # neighbourhoods (only needed when the main grid is coarser than 2^17)
            if self.shifts[tier] != 17:
                for i in range(shard, len(fine), nshards):
                    s = fine[i]
                    if time.monotonic() > deadline:
                        complete = False
                        break
                    lo = max(0, i - 12)
                    for e in fine[lo : i + 13]:
                        r = check_pair(bins, s, e, fmt, one)
                        n += 1
                        if r is not None:
                            rec.report({"start": s, "end": e, "fmt": fmt, "one": one}, Failure(r[0], sig=r[1]))
                            rec.count_bulk(n, n)
                            return
        rec.count_bulk(n, n, labels={"pairs": n}, samples=samples)
        rec.exhaustive = complete
        if not complete:
            rec.skipped_after_budget += 1
        rec.notes.append(
            "grid step 2^%d: %d points, all ordered and reversed pairs; fmt gff+bed; one=%r"
            % (self.shifts[tier], len(pts), one)
        )


def _near_edge(p):
    r = p & ((1 << 17) - 1)
    return r <= 2 or r >= (1 << 17) - 2


def _debug_listing():
    """The module's debugging aid (prints the table of bin sizes); using it must not change what bins() returns."""
    import contextlib
    import io

    from gffutils import bins as _b

    with contextlib.redirect_stdout(io.StringIO()):
        _b.print_bin_sizes()


class RandomLeg(object):
    """Random coordinates; the overlap corollary; Feature.bin."""

    kind = "hyp"
    name = "random"
    budget = {"quick": (8, 4000), "thorough": (16, 150000)}

    def strategy(self):
        from hypothesis import strategies as st

        coord = st.one_of(
            st.integers(-5, MAXC + 5),
            st.builds(
                lambda k, m, d: m * (1 << (17 + 3 * k)) + d,
                st.integers(0, 4),
                st.integers(0, 4096),
                st.integers(-3, 3),
            ).filter(lambda v: -5 <= v <= MAXC + 5),
            st.integers(1, 1 << 20),
        )
        length = st.one_of(
            st.integers(0, 3),
            st.integers(0, 1 << 18),
            st.builds(lambda k, d: (1 << (17 + 3 * k)) + d, st.integers(0, 4), st.integers(-3, 3)),
            st.integers(0, MAXC),
        )
        iv = st.builds(lambda s, l: [s, s + l], coord, length)
        return st.fixed_dictionaries(
            {
                "a": iv,
                "b_off": st.integers(-200000, 200000),
                "b_len": length,
                "nest": st.booleans(),
                "fmt": st.sampled_from(["gff", "bed"]),
                "dot": st.sampled_from(["none", "none", "none", "start", "end", "both"]),
                "listing_before": st.integers(0, 49).map(lambda v: v == 0),
            }
        )

    def classify(self, case):
        s, e = case["a"]
        nt = _near_edge(s) or _near_edge(e) or _near_edge(s - 1) or _near_edge(e + 1)
        labels = ["fmt=" + case["fmt"]]
        if s >= MAXC or e >= MAXC:
            labels.append("beyond-2^29")
        if s < 1:
            labels.append("start<1")
        if nt:
            labels.append("near-edge")
        return nt, labels

    def check(self, case, ctx):
        from gffutils.bins import bins
        from gffutils.feature import Feature

        s, e = case["a"]
        fmt = case["fmt"]
        if case.get("listing_before"):
            _debug_listing()
        for one in (True, False):
            r = check_pair(bins, s, e, fmt, one)
            if r is not None:
                return Failure(r[0], sig=r[1])
        # the returned set belongs to the caller: emptying it must not change what the next call returns
        r1 = bins(s, e, fmt=fmt, one=False)
        if isinstance(r1, set):
            keep = set(r1)
            r1.clear()
            r2 = bins(s, e, fmt=fmt, one=False)
            if r2 != keep:
                return Failure("bins(%d, %d, fmt=%r, one=False) returns %d bins after the caller emptied the previous result (%d before)"
                               % (s, e, fmt, len(r2), len(keep)), sig={"kind": "shared-result"})
        # corollary: overlapping or nested in-range intervals see each other's bin
        if fmt == "gff" and in_range(s, e, "gff") and s <= e:
            if case["nest"]:
                bs = min(e, s + abs(case["b_off"]) % (e - s + 1))
                be = min(e, bs + case["b_len"])
            else:
                bs = max(1, min(e, s + case["b_off"]))  # starts at or before e
                be = min(MAXC - 1, max(bs, s) + case["b_len"])  # ends at or after s
            if in_range(bs, be, "gff") and bs <= be and bs <= e and be >= s:
                for (p, q, u, v) in ((s, e, bs, be), (bs, be, s, e)):
                    one_bin = bins(p, q)
                    many = bins(u, v, one=False)
                    if one_bin not in many:
                        return Failure(
                            "bin %r of [%d,%d] is not among the %d bins of the overlapping [%d,%d]"
                            % (one_bin, p, q, len(many), u, v),
                            sig={"kind": "overlap-corollary"},
                        )
        # Feature.bin
        if fmt == "gff":
            if case["dot"] == "none" and in_range(s, s - 1, "gff") and s >= 1 and s < MAXC:
                z = Feature(seqid="c", start=s, end=s - 1)  # zero-length feature: start = end + 1
                if z.bin != bins(s, s - 1) or z.bin not in expect_one(s, s - 1):
                    return Failure("zero-length Feature(start=%d, end=%d).bin = %r, bins() = %r, acceptable %s"
                                   % (s, s - 1, z.bin, bins(s, s - 1), sorted(expect_one(s, s - 1))), sig={"kind": "feature-bin"})
            fs = "." if case["dot"] in ("start", "both") else s
            fe = "." if case["dot"] in ("end", "both") else e
            f = Feature(seqid="c", start=fs, end=fe)
            if fs == "." or fe == ".":
                # (a '.' next to a coordinate >= 2**29 is not asserted: the docstring's
                # "bin will be None" and the out-of-range rule "bin 1" both apply)
                if f.bin is not None and not (s >= MAXC or e >= MAXC):
                    return Failure("Feature with '.' coordinate has bin %r" % (f.bin,), sig={"kind": "feature-bin"})
            else:
                want = bins(s, e)
                if f.bin != want or type(f.bin) is not int:
                    return Failure(
                        "Feature(start=%d, end=%d).bin = %r, bins() = %r" % (s, e, f.bin, want),
                        sig={"kind": "feature-bin"},
                    )
        return None


class StoredBinLeg(object):
    """A stored feature's bin equals bins(start, end) of the coordinates it is stored with, also when
    the coordinates were changed between constructing the Feature and storing it."""

    kind = "hyp"
    name = "stored_bin"
    budget = {"quick": (8, 150), "thorough": (16, 3000)}

    def strategy(self):
        from hypothesis import strategies as st

        coord = st.one_of(
            st.builds(lambda k, m, d: max(1, m * (1 << (17 + 3 * k)) + d), st.integers(0, 3), st.integers(0, 6), st.integers(-2, 2)),
            st.integers(1, 1 << 21),
        )
        shift = st.one_of(st.sampled_from([0, 1, -1, 1 << 17, -(1 << 17), (1 << 20) + 3]), st.integers(-300000, 300000))
        feat = st.fixed_dictionaries({"start": coord, "len": st.sampled_from([0, 1, 5, 1000, (1 << 17) - 1, 1 << 17, 1 << 20]),
                                      "dstart": shift, "dend": shift})
        return st.fixed_dictionaries({
            "features": st.lists(feat, min_size=1, max_size=6),
            "route": st.sampled_from(["transform", "edit-then-create", "edit-then-update-replace", "plain", "add_relation-func", "gtf-inferred"]),
            "listing_before": st.integers(0, 9).map(lambda v: v == 0),
        })

    def _gtf_inferred(self, case, ctx):
        """Exons of one transcript per generated feature, imported through the GTF importer with a transform that widens
        whatever genes / transcripts it is shown: every stored row, inferred ones included, carries the bin of its coordinates."""
        import gffutils
        from gffutils.bins import bins

        lines = []
        f0 = case["features"][0]
        if f0["dend"] % 2:
            # the file states gene g0 itself, on a stretch that does not cover all its exons
            lines.append('chr1\ts\tgene\t%d\t%d\t.\t+\t.\tgene_id "g0";' % (f0["start"], f0["start"] + 1))
        for i, f in enumerate(case["features"]):
            s_, e_ = f["start"], f["start"] + f["len"]
            lines.append('chr1\ts\texon\t%d\t%d\t.\t+\t.\tgene_id "g%d"; transcript_id "t%d";' % (s_, e_, i // 2, i))
            s2 = max(1, s_ + f["dstart"])
            lines.append('chr1\ts\texon\t%d\t%d\t.\t+\t.\tgene_id "g%d"; transcript_id "t%d";' % (s2, s2 + 10, i // 2, i))

        def widen(x):
            if x.featuretype in ("gene", "transcript"):
                x.start = max(1, x.start - 2000)
                x.end = x.end + 2000
            return x

        db = gffutils.create_db("\n".join(lines) + "\n", ":memory:", from_string=True, transform=widen)
        rows = list(db.execute("SELECT id, start, end, bin, featuretype FROM features"))
        if not any(r[4] == "gene" for r in rows):
            return Failure("no gene was inferred from %d exon lines" % len(lines), sig={"kind": "stored-coords"})
        for fid, s_, e_, b, ft in rows:
            if in_range(s_, e_, "gff") and (b != bins(s_, e_) or b not in expect_one(s_, e_)):
                return Failure("%s %s is stored with coordinates %d..%d and bin %r; bins() gives %r (GTF import with a transform)"
                               % (ft, fid, s_, e_, b, bins(s_, e_)), sig={"kind": "stored-bin", "route": "gtf-inferred"})
            if in_range(s_, e_, "gff") and fid not in [x.id for x in db.all_features(limit=("chr1", s_, e_), completely_within=True)]:
                return Failure("all_features(limit=chr1:%d-%d, completely_within=True) does not return %s %s stored exactly there"
                               % (s_, e_, ft, fid), sig={"kind": "stored-bin-query"})
        return None

    def _final(self, f, route):
        s, e = f["start"], f["start"] + f["len"]
        if route in ("plain", "gtf-inferred"):
            return s, e
        ns = max(1, s + f["dstart"])
        ne = max(ns, e + f["dend"])
        return ns, ne

    def classify(self, case):
        from_to = [((f["start"], f["start"] + f["len"]), self._final(f, case["route"])) for f in case["features"]]
        moved = any(expect_one(*a) != expect_one(*b) for a, b in from_to if a[1] < MAXC and b[1] < MAXC)
        return moved, ["route=" + case["route"]] + (["bin-changes"] if moved else [])

    def check(self, case, ctx):
        import gffutils
        from gffutils.bins import bins
        from gffutils.feature import Feature

        route = case["route"]
        if case.get("listing_before"):
            _debug_listing()
        if route == "gtf-inferred":
            return self._gtf_inferred(case, ctx)
        feats = []
        for i, f in enumerate(case["features"]):
            feats.append(Feature(seqid="chr1", source="s", featuretype="gene", start=f["start"], end=f["start"] + f["len"],
                                 strand="+", attributes={"ID": ["f%d" % i]}))
        finals = [self._final(f, route) for f in case["features"]]
        if route == "transform":
            def t(x):
                i = int(x.attributes["ID"][0][1:])
                x.start, x.end = finals[i]
                return x

            db = gffutils.create_db(feats, ":memory:", transform=t)
        elif route == "edit-then-create":
            for x, (s_, e_) in zip(feats, finals):
                x.start, x.end = s_, e_
            db = gffutils.create_db(feats, ":memory:")
        elif route == "edit-then-update-replace":
            db = gffutils.create_db(feats, ":memory:")
            edited = []
            for i, (s_, e_) in enumerate(finals):
                x = db["f%d" % i]
                x.start, x.end = s_, e_
                edited.append(x)
            db.update(edited, merge_strategy="replace", make_backup=False)
        elif route == "add_relation-func":
            # add_relation() re-writes the feature its parent_func / child_func returns
            anchor = Feature(seqid="chr1", source="s", featuretype="gene", start=1, end=2, strand="+", attributes={"ID": ["anchor"]})
            db = gffutils.create_db(feats + [anchor], ":memory:")
            for i, (s_, e_) in enumerate(finals):
                def move(parent, child, _s=s_, _e=e_, _as_parent=(i % 2 == 0)):
                    tgt = parent if _as_parent else child
                    tgt.start, tgt.end = _s, _e
                    return tgt

                if i % 2 == 0:
                    db.add_relation("f%d" % i, "anchor", 1 + i, parent_func=move)
                else:
                    db.add_relation("anchor", "f%d" % i, 1 + i, child_func=move)
        else:
            db = gffutils.create_db(feats, ":memory:")
        rows = dict((r[0], (r[1], r[2], r[3])) for r in db.execute("SELECT id, start, end, bin FROM features"))
        for i, (s_, e_) in enumerate(finals):
            fid = "f%d" % i
            if fid not in rows or rows[fid][:2] != (s_, e_):
                return Failure("feature %s stored with coordinates %r, expected %r (route %s)" % (fid, rows.get(fid), (s_, e_), route),
                               sig={"kind": "stored-coords"})
            b = rows[fid][2]
            ok = expect_one(s_, e_) if in_range(s_, e_, "gff") else {1}
            if b not in ok or b != bins(s_, e_):
                return Failure("feature %s is stored with coordinates %d..%d and bin %r; bins() gives %r, acceptable %s (route %s)"
                               % (fid, s_, e_, b, bins(s_, e_), sorted(ok), route), sig={"kind": "stored-bin", "route": route})
            if db[fid].bin != b:
                return Failure("db[%r].bin = %r, stored bin %r" % (fid, db[fid].bin, b), sig={"kind": "stored-bin"})
            # and the stored feature is found by a bin-filtered query around it
            hit = [x.id for x in db.region(("chr1", s_, e_), completely_within=True)]
            if fid not in hit:
                return Failure("region(chr1:%d-%d, completely_within=True) does not return %s stored exactly there" % (s_, e_, fid),
                               sig={"kind": "stored-bin-query"})
            if in_range(s_, e_, "gff"):
                hit = [x.id for x in db.all_features(limit=("chr1", s_, e_), completely_within=True)]
                if fid not in hit:
                    return Failure("all_features(limit=chr1:%d-%d, completely_within=True) does not return %s stored exactly there (bin %r)"
                                   % (s_, e_, fid, b), sig={"kind": "stored-bin-query"})
        # a Feature used as the query region after it was widened in place
        lo = min(s_ for s_, e_ in finals)
        hi = max(e_ for s_, e_ in finals)
        if hi < MAXC:
            rf = Feature(seqid="chr1", start=lo, end=lo, strand="+")
            rf.end = hi
            got_rf = set(x.id for x in db.region(rf, completely_within=True))
            want_rf = set("f%d" % i for i in range(len(finals)))
            if not want_rf <= got_rf:
                return Failure("region(<Feature widened in place to %d..%d>, completely_within=True) misses %r" % (lo, hi, sorted(want_rf - got_rf)),
                               sig={"kind": "stored-bin-query"})
        # features yielded by interfeatures() carry the bin of their own coordinates
        ordered = sorted(db.all_features(), key=lambda x: (x.start, x.end))
        for g_ in db.interfeatures(ordered):
            if in_range(g_.start, g_.end, "gff") and g_.bin != bins(g_.start, g_.end):
                return Failure("interfeatures yields %d..%d with bin %r, bins() gives %r" % (g_.start, g_.end, g_.bin, bins(g_.start, g_.end)),
                               sig={"kind": "feature-bin"})
        # a query wide enough to overlap >= 900 bins, through limit= and through region()
        wide_hi = min(MAXC - 1, max(e_ for s_, e_ in finals) + (1 << 27))
        want_wide = set("f%d" % i for i, (s_, e_) in enumerate(finals) if e_ <= wide_hi)
        for what, got_wide in (("all_features(limit=…, completely_within=True)", set(x.id for x in db.all_features(limit=("chr1", 1, wide_hi), completely_within=True))),
                               ("features_of_type(limit=…)", set(x.id for x in db.features_of_type("gene", limit=("chr1", 1, wide_hi)))),
                               ("region(…, completely_within=True)", set(x.id for x in db.region(("chr1", 1, wide_hi), completely_within=True)))):
            if not want_wide <= got_wide:
                return Failure("%s over chr1:1-%d misses stored features %r" % (what, wide_hi, sorted(want_wide - got_wide)),
                               sig={"kind": "stored-bin-query"})
        whole = set(x.id for x in db.region(("chr1", 1, MAXC), completely_within=True))
        inside = set("f%d" % i for i, (s_, e_) in enumerate(finals) if e_ <= MAXC)
        if not inside <= whole:
            return Failure("region(chr1:1-2^29, completely_within=True) misses stored features %r" % sorted(inside - whole),
                           sig={"kind": "stored-bin-query"})
        return None


LEGS = [
    StoredBinLeg(),
    GridLeg("grid_one", True, {"quick": (16, 0), "thorough": (16, 0)}, {"quick": 20, "thorough": 17}),
    GridLeg("grid_set", False, {"quick": (16, 0), "thorough": (16, 0)}, {"quick": 23, "thorough": 20}),
    RandomLeg(),
]
