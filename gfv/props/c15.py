"""
C15  Interfeatures, introns and splice sites have exact gap geometry.

Oracle (DESIGN A.4): a reference loop over consecutive pairs producing the exact output
sequence (seqid, start, end, type, strand, attribute map); inputs and the database are
compared before/after.
"""
import copy

from gfv import dbsnap
from gfv.core import Failure

PROP = "C15"
RULE = (
    "(lists) ordered lists of 1-8 features with gaps, adjacency, overlap, nesting, seqid changes, mixed strands and "
    "types, attributes with shared/different keys, with and without ID, numeric-looking values; new_featuretype, "
    "merge_attributes, numeric_sort and update_attributes generated. Non-trivial = the list holds a touching or overlapping "
    "pair and a real gap, or a seqid change. (introns) GFF3 databases of genes -> transcripts -> 1-6 exons on either "
    "strand; create_introns / create_splice_sites with generated options; non-trivial = a transcript with >= 3 exons or a "
    "minus-strand transcript. Distinct by hash."
)
ASSUMPTIONS = [
    "input features have integer coordinates with start <= end",
    "transcripts whose exons share a start coordinate are skipped for create_introns/create_splice_sites (their relative order under order_by='start' is unspecified)",
    "columns of the gap feature other than seqid/start/end/featuretype/strand/attributes are not asserted (the statement is silent)",
]


def ref_merge(a, b, numeric_sort):
    out = {}
    for k in list(a) + [k for k in b if k not in a]:
        vals = set(a.get(k, [])) | set(b.get(k, []))
        if numeric_sort:
            try:
                vals = [v for _, v in sorted((float(v), v) for v in vals)]
            except ValueError:
                vals = sorted(vals)
        else:
            vals = sorted(vals)
        out[k] = vals
    return out


def ref_inter(feats, new_featuretype, merge_attributes, numeric_sort, update_attributes):
    """feats: list of dicts seqid,start,end,ft,strand,attrs.  -> list of expected gap features."""
    out = []
    for a, b in zip(feats, feats[1:]):
        if a["seqid"] != b["seqid"]:
            continue
        s, e = a["end"] + 1, b["start"] - 1
        if s > e:
            continue
        attrs = ref_merge(a["attrs"], b["attrs"], numeric_sort) if merge_attributes else {}
        if update_attributes:
            attrs.update(copy.deepcopy(update_attributes))
        if "ID" in attrs and len(attrs["ID"]) > 1:
            attrs["ID"] = ["-".join(attrs["ID"])]
        out.append({
            "seqid": a["seqid"], "start": s, "end": e,
            "ft": new_featuretype or "inter_%s_%s" % (a["ft"], b["ft"]),
            "strand": a["strand"] if a["strand"] == b["strand"] else ".",
            "attrs": attrs,
        })
    return out


def attrs_match(got, want, numeric_sort):
    """Exact equality, except that numerically sorted values may break float ties either way."""
    if got == want:
        return True
    if not numeric_sort or list(got) != list(want):
        return False
    for k in want:
        g, w = got[k], want[k]
        if g == w:
            continue
        try:
            fl = [float(v) for v in g]
        except (ValueError, TypeError):
            return False
        if sorted(g) != sorted(w) or fl != sorted(fl):
            return False
    return True


def _as_tuple(f):
    return (f.seqid, f.start, f.end, f.featuretype, f.strand, dict((k, list(v)) for k, v in dict(f.attributes).items()))


def _exp_tuple(x):
    return (x["seqid"], x["start"], x["end"], x["ft"], x["strand"], x["attrs"])


class ListsLeg(object):
    kind = "hyp"
    name = "lists"
    budget = {"quick": (8, 1200), "thorough": (16, 25000)}

    def strategy(self):
        from hypothesis import strategies as st

        val = st.sampled_from(["a", "b", "10", "9", "2.5", "x y", "é", "1e1", "-3"])

        @st.composite
        def case(draw):
            n = draw(st.integers(1, 8))
            feats = []
            pos = draw(st.integers(1, 50))
            seqid = "chr1"
            for i in range(n):
                mode = draw(st.sampled_from(["gap", "gap", "touch", "overlap", "nested", "newseq", "back"]))
                length = draw(st.integers(0, 30))
                if not feats or mode == "newseq":
                    if feats:
                        seqid = draw(st.sampled_from(["chr1", "chr2", "chr3"]))
                    start = draw(st.integers(1, 100))
                else:
                    prev = feats[-1]
                    if mode == "gap":
                        start = prev["end"] + 1 + draw(st.integers(1, 40))
                    elif mode == "touch":
                        start = prev["end"] + 1
                    elif mode == "overlap":
                        start = max(1, prev["end"] - draw(st.integers(0, 5)))
                    elif mode == "nested":
                        start = prev["start"] + draw(st.integers(0, max(0, prev["end"] - prev["start"])))
                        length = min(length, max(0, prev["end"] - start))
                    else:
                        start = max(1, prev["start"] - draw(st.integers(1, 60)))
                attrs = {}
                if draw(st.integers(0, 3)) > 0:
                    attrs["ID"] = [draw(st.sampled_from(["e%d" % i, str(8 + i), str(8 + i)]))]  # also purely numeric ids (9, 10, ...)
                for k in draw(st.lists(st.sampled_from(["Parent", "exon_number", "note", "k"]), unique=True, max_size=3)):
                    attrs[k] = draw(st.lists(val, min_size=1, max_size=3))
                if feats and draw(st.integers(0, 5)) == 0:
                    # the same attributes as the neighbour (parts of one discontinuous feature; shared, ID-less exons)
                    attrs = dict((k, list(v)) for k, v in feats[-1]["attrs"].items())
                    if draw(st.booleans()):
                        attrs["note"] = draw(st.sampled_from([["z", "a", "z"], ["10", "9"], ["b", "a"]]))
                        feats[-1]["attrs"]["note"] = list(attrs["note"])
                feats.append({"seqid": seqid, "start": start, "end": start + length,
                              "ft": draw(st.sampled_from(["exon", "exon", "CDS", "gene"])),
                              "strand": draw(st.sampled_from(["+", "+", "-", "."])), "attrs": attrs})
            upd = draw(st.sampled_from([None, None, {"tag": ["t"]}, {"note": ["replaced"], "extra": ["1", "2"]}]))
            off = draw(st.sampled_from([0, 0, 131072 - 40, 131072 - 10, 1048576 - 25]))  # near a 128 kb / 1 Mb bin edge
            for f in feats:
                f["start"] += off
                f["end"] += off
            return {"features": feats, "new_featuretype": draw(st.sampled_from([None, None, "intron", "gap"])),
                    "merge_attributes": draw(st.integers(0, 3)) > 0, "numeric_sort": draw(st.booleans()),
                    "update_attributes": upd, "as_generator": draw(st.booleans())}

        return case()

    def classify(self, case):
        fs = case["features"]
        gap = touch = seqchg = False
        for a, b in zip(fs, fs[1:]):
            if a["seqid"] != b["seqid"]:
                seqchg = True
            elif a["end"] + 1 <= b["start"] - 1:
                gap = True
            else:
                touch = True
        labels = []
        for name, flag in (("gap", gap), ("touch-or-overlap", touch), ("seqid-change", seqchg)):
            if flag:
                labels.append(name)
        if case["numeric_sort"]:
            labels.append("numeric_sort")
        return (gap and touch) or seqchg, labels

    def check(self, case, ctx):
        import gffutils
        from gffutils.feature import Feature

        db = gffutils.create_db("chr9\t.\tgene\t1\t2\t.\t+\t.\tID=only\n", ":memory:", from_string=True)
        before_db = dbsnap.snapshot(db)
        feats = []
        for f in case["features"]:
            feats.append(Feature(seqid=f["seqid"], source="src", featuretype=f["ft"], start=f["start"], end=f["end"],
                                 score=".", strand=f["strand"], frame=".", attributes=copy.deepcopy(f["attrs"])))
        before = [(str(f), _as_tuple(f)) for f in feats]
        kw = dict(new_featuretype=case["new_featuretype"], merge_attributes=case["merge_attributes"],
                  numeric_sort=case["numeric_sort"])
        if case["update_attributes"] is not None:
            kw["update_attributes"] = copy.deepcopy(case["update_attributes"])
        src = iter(feats) if case["as_generator"] else feats
        got = list(db.interfeatures(src, **kw))
        want = ref_inter(case["features"], case["new_featuretype"], case["merge_attributes"], case["numeric_sort"],
                         case["update_attributes"])
        g = [_as_tuple(f) for f in got]
        w = [_exp_tuple(x) for x in want]
        if len(g) != len(w):
            return Failure("interfeatures yielded %d features, expected %d: got %r, expected %r"
                           % (len(g), len(w), [x[:5] for x in g], [x[:5] for x in w]), sig={"kind": "count"})
        for i, (a, b) in enumerate(zip(g, w)):
            if a[:3] != b[:3]:
                return Failure("gap %d spans %r, expected %r" % (i, a[:3], b[:3]), sig={"kind": "geometry"})
            if a[3] != b[3]:
                return Failure("gap %d has featuretype %r, expected %r" % (i, a[3], b[3]), sig={"kind": "featuretype"})
            if a[4] != b[4]:
                return Failure("gap %d has strand %r, expected %r" % (i, a[4], b[4]), sig={"kind": "strand"})
            if not attrs_match(a[5], b[5], case["numeric_sort"]):
                return Failure("gap %d has attributes %r, expected %r (numeric_sort=%s)" % (i, a[5], b[5], case["numeric_sort"]),
                               sig={"kind": "attributes"})
        import gffutils.bins as _bins

        for f in got:
            if f.bin != _bins.bins(f.start, f.end):
                return Failure("gap %d..%d carries bin %r, bins() gives %r" % (f.start, f.end, f.bin, _bins.bins(f.start, f.end)),
                               sig={"kind": "gap-bin"})
        after = [(str(f), _as_tuple(f)) for f in feats]
        if after != before:
            return Failure("interfeatures modified its input features", sig={"kind": "inputs-modified"})
        if dbsnap.snapshot(db) != before_db:
            return Failure("interfeatures modified the database", sig={"kind": "db-modified"})
        return None


class IntronsLeg(object):
    kind = "hyp"
    name = "introns"
    budget = {"quick": (8, 120), "thorough": (16, 2500)}

    def strategy(self):
        from hypothesis import strategies as st

        @st.composite
        def case(draw):
            genes = []
            for gi in range(draw(st.integers(1, 3))):
                strand = draw(st.sampled_from(["+", "-"]))
                txs = []
                for ti in range(draw(st.integers(1, 3))):
                    ne = draw(st.integers(1, 6))
                    pos = draw(st.one_of(st.integers(1, 200), st.sampled_from([131072 - 60, 131072 - 5, 1048576 - 30])))
                    exons = []
                    for ei in range(ne):
                        length = draw(st.integers(0, 50))
                        exons.append([pos, pos + length])
                        pos = pos + length + 1 + draw(st.sampled_from([0, 1, 2, 10, 100]))
                    order = list(draw(st.permutations(list(range(ne)))))
                    txs.append({"exons": exons, "order": order, "type": draw(st.sampled_from(["mRNA", "mRNA", "ncRNA"])),
                                "strand": strand if draw(st.integers(0, 5)) else ".",
                                # an exon may lie on the other strand than its transcript (trans-splicing)
                                "odd_exon": draw(st.sampled_from([None, None, None, 0, ne - 1]))})
                genes.append({"strand": strand, "seqid": draw(st.sampled_from(["chr1", "chr2"])), "txs": txs})
            return {"genes": genes, "mode": draw(st.sampled_from(["introns", "splice"])),
                    "merge_attributes": draw(st.integers(0, 3)) > 0, "numeric_sort": draw(st.booleans()),
                    "by_parent": draw(st.booleans()), "file_db": draw(st.integers(0, 3)) == 0}

        return case()

    def classify(self, case):
        many = any(len(t["exons"]) >= 3 for g in case["genes"] for t in g["txs"])
        minus = any(t["strand"] == "-" for g in case["genes"] for t in g["txs"])
        return many or minus, ["mode=" + case["mode"]] + (["minus-strand"] if minus else []) + (["by-parent-type"] if case["by_parent"] else [])

    def check(self, case, ctx):
        import gffutils

        lines = []
        txmodel = []
        for gi, g in enumerate(case["genes"]):
            gid = "g%d" % gi
            lo = min(e[0] for t in g["txs"] for e in t["exons"])
            hi = max(e[1] for t in g["txs"] for e in t["exons"])
            lines.append("\t".join([g["seqid"], "src", "gene", str(lo), str(hi), ".", g["strand"], ".", "ID=%s" % gid]))
            for ti, t in enumerate(g["txs"]):
                tid = "%s.t%d" % (gid, ti)
                tl = min(e[0] for e in t["exons"])
                th = max(e[1] for e in t["exons"])
                lines.append("\t".join([g["seqid"], "src", t["type"], str(tl), str(th), ".", t["strand"], ".", "ID=%s;Parent=%s" % (tid, gid)]))
                exs = []
                for k in t["order"]:
                    s, e = t["exons"][k]
                    eid = "%s.e%d" % (tid, k)
                    attrs = {"ID": [eid], "Parent": [tid], "exon_number": [str(k + 8)]}
                    es = t["strand"]
                    if t.get("odd_exon") == k:
                        es = {"+": "-", "-": "+", ".": "+"}[es]
                    lines.append("\t".join([g["seqid"], "src", "exon", str(s), str(e), ".", es, ".",
                                            "ID=%s;Parent=%s;exon_number=%d" % (eid, tid, k + 8)]))
                    exs.append({"seqid": g["seqid"], "start": s, "end": e, "ft": "exon", "strand": es, "attrs": attrs})
                exs.sort(key=lambda x: x["start"])
                txmodel.append({"id": tid, "type": t["type"], "strand": t["strand"], "exons": exs})
        text = "\n".join(lines) + "\n"
        dbfn = ctx.path("i.db") if case["file_db"] else ":memory:"
        db = gffutils.create_db(text, dbfn, from_string=True)
        before = dbsnap.snapshot(db)
        kw = dict(merge_attributes=case["merge_attributes"], numeric_sort=case["numeric_sort"])
        if case["by_parent"]:
            kw.update(grandparent_featuretype=None, parent_featuretype="mRNA")
            txs = [t for t in txmodel if t["type"] == "mRNA"]
        else:
            txs = txmodel
        if case["mode"] == "splice" and not case["merge_attributes"]:
            # splice sites are named after the merged exon IDs: needs merge_attributes (statement: exons carrying an ID)
            return None
        want = []
        for t in txs:
            gaps = ref_inter(t["exons"], "intron", case["merge_attributes"], case["numeric_sort"], None)
            if case["mode"] == "introns":
                want += [_exp_tuple(x) for x in gaps]
            else:
                for x in gaps:
                    for side in ("left", "right"):
                        if side == "left":
                            label = {"+": "five_prime_cis_splice_site", "-": "three_prime_cis_splice_site"}.get(t["strand"], "splice_site")
                            s, e = x["start"], x["start"] + 1
                        else:
                            label = {"+": "three_prime_cis_splice_site", "-": "five_prime_cis_splice_site"}.get(t["strand"], "splice_site")
                            s, e = x["end"] - 1, x["end"]
                        attrs = copy.deepcopy(x["attrs"])
                        attrs["ID"] = [label + "_" + attrs["ID"][0]]
                        want.append((x["seqid"], s, e, label, x["strand"], attrs))
        if case["mode"] == "introns":
            got = [_as_tuple(f) for f in db.create_introns(**kw)]
        else:
            got = [_as_tuple(f) for f in db.create_splice_sites(**kw)]
        key = lambda x: (x[0], x[1], x[2], x[3], x[4], sorted((k, tuple(v)) for k, v in x[5].items()))
        if sorted(map(key, got)) != sorted(map(key, want)):
            gs, ws = sorted(map(key, got)), sorted(map(key, want))
            only_g = [x[:5] for x in gs if x not in ws][:4]
            only_w = [x[:5] for x in ws if x not in gs][:4]
            geom = sorted(x[:5] for x in gs) != sorted(x[:5] for x in ws)
            return Failure("%s differ from the gaps between start-ordered exons: unexpected %r, missing %r%s"
                           % ("create_introns" if case["mode"] == "introns" else "create_splice_sites", only_g, only_w,
                              "" if geom else " (attributes differ)"),
                           sig={"kind": case["mode"], "geometry": geom})
        if dbsnap.snapshot(db) != before:
            return Failure("%s modified the database" % case["mode"], sig={"kind": "db-modified"})
        if case["mode"] == "introns" and case["merge_attributes"] and case.get("file_db"):
            # an exon is replaced by one with other attributes (same id, same place): the next call reflects them
            tgt = next((t for t in txs if len(t["exons"]) >= 2), None)
            if tgt is not None:
                from gffutils.feature import feature_from_line as _ffl

                ex = tgt["exons"][0]
                ex["attrs"] = dict(ex["attrs"], exon_number=["77"], note=["changed"])
                db.update([_ffl("\t".join([ex["seqid"], "src", "exon", str(ex["start"]), str(ex["end"]), ".", ex["strand"], ".",
                                           "ID=%s;Parent=%s;exon_number=77;note=changed" % (ex["attrs"]["ID"][0], ex["attrs"]["Parent"][0])]))],
                          merge_strategy="replace", make_backup=False)
                want_r = []
                for t in txs:
                    want_r += [_exp_tuple(x) for x in ref_inter(t["exons"], "intron", case["merge_attributes"], case["numeric_sort"], None)]
                got_r = [_as_tuple(f) for f in db.create_introns(**kw)]
                if sorted(map(key, got_r)) != sorted(map(key, want_r)):
                    return Failure("create_introns after an exon was replaced (update, merge_strategy='replace') still uses its old attributes",
                                   sig={"kind": "introns-stale-after-replace"})
        if case["mode"] == "introns":
            # introns written back with update() are found by bin-filtered queries where they lie
            introns = list(db.create_introns(**kw))
            if introns and case["merge_attributes"]:
                db.update(introns, make_backup=False, merge_strategy="create_unique")
                for f in introns:
                    hits = [x for x in db.all_features(limit=(f.seqid, f.start, f.end), completely_within=True, featuretype="intron")
                            if (x.start, x.end) == (f.start, f.end)]
                    if not hits:
                        return Failure("an intron %s:%d-%d stored with update() is not returned by all_features(limit=its own interval, completely_within=True)"
                                       % (f.seqid, f.start, f.end), sig={"kind": "stored-intron-not-found"})
                import gffutils.bins as _b

                for r_ in db.execute("SELECT id, start, end, bin FROM features WHERE featuretype = 'intron'"):
                    if r_[3] != _b.bins(r_[1], r_[2]):
                        return Failure("stored intron %r %d..%d has bin %r, bins() gives %r" % (r_[0], r_[1], r_[2], r_[3], _b.bins(r_[1], r_[2])),
                                       sig={"kind": "stored-intron-bin"})
                db.delete([x.id for x in db.features_of_type("intron")], make_backup=False)
        # the same call again after an exon was deleted through the same handle reflects the new exon set
        victim = None
        for t in txs:
            if len(t["exons"]) >= 3:
                victim = t["exons"][1]
                t["exons"] = [e for e in t["exons"] if e is not victim]
                break
        if victim is not None and case["mode"] == "introns":
            db.delete(victim["attrs"]["ID"][0], make_backup=False)
            want2 = []
            for t in txs:
                want2 += [_exp_tuple(x) for x in ref_inter(t["exons"], "intron", case["merge_attributes"], case["numeric_sort"], None)]
            got2 = [_as_tuple(f) for f in db.create_introns(**kw)]
            if sorted(map(key, got2)) != sorted(map(key, want2)):
                return Failure("create_introns after delete(%r) on the same handle still reflects the old exon set: %r vs %r"
                               % (victim["attrs"]["ID"][0], sorted(x[:3] for x in got2), sorted(x[:3] for x in want2)),
                               sig={"kind": "introns-stale-after-delete"})
            # the deleted id comes back later as an exon of ANOTHER transcript: it belongs to that one only
            others = [t for t in txs if victim["attrs"]["Parent"][0] != t["id"] and t["exons"]]
            if others:
                from gffutils.feature import feature_from_line

                t2 = others[0]
                last = max(e["end"] for e in t2["exons"])
                ns, ne = last + 5, last + 15
                vid = victim["attrs"]["ID"][0]
                seqid2, strand2 = t2["exons"][0]["seqid"], t2["exons"][0]["strand"]
                db.update([feature_from_line("\t".join([seqid2, "src", "exon", str(ns), str(ne), ".", strand2, ".",
                                                        "ID=%s;Parent=%s;exon_number=99" % (vid, t2["id"])]))], make_backup=False)
                t2["exons"] = sorted(t2["exons"] + [{"seqid": seqid2, "start": ns, "end": ne, "ft": "exon", "strand": strand2,
                                                     "attrs": {"ID": [vid], "Parent": [t2["id"]], "exon_number": ["99"]}}],
                                     key=lambda x: x["start"])
                want3 = []
                for t in txs:
                    want3 += [_exp_tuple(x) for x in ref_inter(t["exons"], "intron", case["merge_attributes"], case["numeric_sort"], None)]
                got3 = [_as_tuple(f) for f in db.create_introns(**kw)]
                if sorted(map(key, got3)) != sorted(map(key, want3)):
                    return Failure("create_introns after the deleted id %r was re-added under transcript %r: %r, expected %r"
                                   % (vid, t2["id"], sorted(x[:3] for x in got3), sorted(x[:3] for x in want3)),
                                   sig={"kind": "introns-after-readd"})
        return None


LEGS = [ListsLeg(), IntronsLeg()]
