"""
C02  GFF3 hierarchy: children/parents are exactly the Parent graph, two levels deep.

Oracle: a reference graph computed from the generated records:
  C1(x) = stored features naming x in Parent;  C2(x) = U C1(y), y in C1(x);
  children(x) = C1 u C2; parents the inverse; nothing at level 3.
"""
from gfv import textmodel as tm
from gfv.core import Failure

PROP = "C02"
RULE = (
    "GFF3 files describing DAGs of 1-12 features with unique ids, depth <= 4, 0-3 parents per feature (comma list or "
    "repeated Parent keys), shared children, dangling Parent values, lines in a generated permutation; ids over letters, "
    "digits, _.:- , interior spaces, non-ASCII, escaped , ; = and (labelled minority) tab/newline/CR. Every stored x is "
    "queried with children/parents x level in {None,1,2,3} x featuretype in {None, str, list} x order_by. In the update share the id of the tail's first line may first be stored under another parent and deleted again before the tail arrives. Non-trivial = a "
    "feature with >= 2 parents, or depth >= 3, or a child line before its parent's line. Distinct by hash."
)
ASSUMPTIONS = [
    "ids are unique, non-empty, without edge blanks; Parent values are ids (percent-escaped where reserved)",
    "order_by is checked for sortedness on the requested key (ties in any order)",
]

FTS = ["gene", "mRNA", "exon", "CDS", "ncRNA"]


def build_records(case):
    recs = []
    for nd in case["nodes"]:
        attrs = [["ID", [nd["id"]]]]
        if nd["parents"]:
            attrs.append(["Parent", list(nd["parents"])])
        if nd.get("note"):
            attrs.append(["Note", [nd["note"]]])
        recs.append({
            "cols": ["chr1", "src", nd["ft"], str(nd["start"]), str(nd["end"]), ".", nd["strand"], "."],
            "attrs": attrs, "extras": [],
        })
    return recs


def reference(case):
    ids = [nd["id"] for nd in case["nodes"]]
    stored = set(ids)
    c1 = dict((i, set()) for i in ids)
    p1 = dict((i, set()) for i in ids)
    for nd in case["nodes"]:
        for p in nd["parents"]:
            if p in stored:
                c1[p].add(nd["id"])
                p1[nd["id"]].add(p)
    c2 = dict((i, set()) for i in ids)
    p2 = dict((i, set()) for i in ids)
    for x in ids:
        for y in c1[x]:
            c2[x] |= c1[y]
        for y in p1[x]:
            p2[x] |= p1[y]
    return c1, c2, p1, p2


def depth(case):
    d = {}
    byid = dict((nd["id"], nd) for nd in case["nodes"])
    for nd in case["nodes"]:  # topological order by construction
        d[nd["id"]] = 1 + max([d[p] for p in nd["parents"] if p in d] or [0])
    return max(d.values()) if d else 0


class GraphLeg(object):
    kind = "hyp"
    name = "graphs"
    budget = {"quick": (8, 200), "thorough": (16, 3000)}

    def strategy(self):
        from hypothesis import strategies as st

        plain_id = st.from_regex(r"[A-Za-z0-9_.:\-]{1,6}", fullmatch=True)
        rich_id = st.text(alphabet=st.sampled_from(list("ab1_.:- ,;=&%") + ["é", "λ", "中", "\x85", "\u2028", "\u2029"]), min_size=1, max_size=6).filter(
            lambda s: s == s.strip() and not s.startswith('"') and not s.endswith('"'))
        ws_id = st.text(alphabet=st.sampled_from(list("ab1") + ["\t", "\n", "\r"]), min_size=2, max_size=5).filter(
            lambda s: any(c in s for c in "\t\n\r") and any(c in s for c in "ab1"))

        @st.composite
        def case(draw):
            n = draw(st.integers(1, 12))
            exotic = draw(st.integers(0, 7)) == 0
            id_st = st.one_of(plain_id, plain_id, rich_id) if not exotic else st.one_of(plain_id, rich_id, ws_id)
            ids = draw(st.lists(id_st, min_size=n, max_size=n, unique=True))
            ghosts = draw(st.lists(plain_id.map(lambda s: "ghost-" + s), max_size=2, unique=True))
            nodes = []
            dep = {}
            for i, ident in enumerate(ids):
                cands = [j for j in range(i) if dep[j] < 4]
                k = draw(st.sampled_from([0, 1, 1, 1, 2, 3])) if cands else 0
                ps = draw(st.lists(st.sampled_from(cands), min_size=min(k, len(cands)), max_size=min(k, len(cands)), unique=True)) if k else []
                dep[i] = 1 + max([dep[j] for j in ps] or [0])
                parents = [ids[j] for j in ps]
                if ghosts and draw(st.integers(0, 5)) == 0:
                    parents.append(draw(st.sampled_from(ghosts)))
                start = draw(st.integers(1, 5000))
                nodes.append({
                    "id": ident, "parents": parents, "ft": draw(st.sampled_from(FTS)),
                    "start": start, "end": start + draw(st.integers(0, 300)),
                    "strand": draw(st.sampled_from(["+", "-", "."])),
                    "note": draw(st.sampled_from(["", "", "x y"])),
                })
            perm = list(draw(st.permutations(list(range(n)))))
            split = draw(st.sampled_from([0, 0, 1, 2, n // 2]))
            if draw(st.integers(0, 3)) == 0:
                # every feature that names a parent is imported first; the features without Parent (the roots, some of
                # them named by the first part) arrive later in an update batch that states no relation at all
                inner = [i for i in perm if nodes[i]["parents"]]
                roots = [i for i in perm if not nodes[i]["parents"]]
                if inner and roots:
                    perm, split = inner + roots, len(inner)
            return {"nodes": nodes, "perm": list(perm), "repeated": draw(st.booleans()),
                    "file_db": draw(st.booleans()), "split": split,
                    "mixed": draw(st.integers(0, 4)) == 0, "tail_sep": draw(st.booleans()),
                    "other_handle": draw(st.integers(0, 2)) == 0, "impostor": draw(st.booleans())}

        return case()

    def classify(self, case):
        nodes = case["nodes"]
        pos = dict((nodes[j]["id"], k) for k, j in enumerate(case["perm"]))
        multi = any(len(nd["parents"]) >= 2 for nd in nodes)
        dp = depth(case)
        child_first = any(p in pos and pos[nd["id"]] < pos[p] for nd in nodes for p in nd["parents"])
        stored = set(nd["id"] for nd in nodes)
        labels = ["depth=%d" % dp]
        if multi:
            labels.append("multi-parent")
        if child_first:
            labels.append("child-before-parent")
        if any(p not in stored for nd in nodes for p in nd["parents"]):
            labels.append("dangling-parent")
        if any(c in nd["id"] for nd in nodes for c in "\t\n\r"):
            labels.append("whitespace-in-id")
        if any(c in nd["id"] for nd in nodes for c in ",;=&% "):
            labels.append("reserved-in-id")
        if case.get("split") and 0 < case["split"] < len(nodes):
            labels.append("tail-through-update")
            if case.get("impostor"):
                labels.append("tail-id-stored-under-another-parent-and-deleted-first")
            if all(not case["nodes"][j]["parents"] for j in case["perm"][case["split"]:]):
                labels.append("update-batch-of-roots-only")
        return multi or dp >= 3 or child_first, labels

    def check(self, case, ctx):
        import gffutils
        from gffutils.exceptions import FeatureNotFoundError

        nodes = case["nodes"]
        n = len(nodes)
        if case.get("tail_sep"):
            # every line of a file whose separator matters shows it (>= 2 attributes), otherwise the separator
            # of the later file is not observable and ';' is assumed by design
            case = dict(case, nodes=[dict(nd, note=nd.get("note") or "n") for nd in nodes])
            nodes = case["nodes"]
        recs = build_records(case)
        d = {"style": "gff3", "sep": ";", "trailing": False, "repeated": case["repeated"]}
        if case.get("mixed"):
            # the spec way: Parent as a comma list, while other attributes of the same file repeat their key
            lines = []
            for j in case["perm"]:
                r = recs[j]
                par = [a for a in r["attrs"] if a[0] == "Parent"]
                rest = {"cols": r["cols"], "attrs": [a for a in r["attrs"] if a[0] != "Parent"] + [["Dbxref", ["db:%d" % j, "db:x%d" % j]]], "extras": []}
                col9 = tm.render_attrs(rest["attrs"], dict(d, repeated=True))
                if par:
                    col9 += ";Parent=" + ",".join(tm.encode_value(v) for v in par[0][1])
                lines.append("\t".join(r["cols"] + [col9]))
        else:
            lines = [tm.render_line(recs[j], d) for j in case["perm"]]
        path = ctx.write("g.gff3", "\n".join(lines) + "\n")
        dbfn = ctx.path("g.db") if case["file_db"] else ":memory:"
        keep_handle = False
        k = case.get("split")
        if k and 0 < k < len(lines):
            # the tail of the file arrives later through update(): parents may be supplied after their children
            p1 = ctx.write("g1.gff3", "\n".join(lines[:k]) + "\n")
            tail = lines[k:]
            if case.get("tail_sep") and not case.get("mixed"):
                # the later file is written with another field separator than the one the database was created from
                d2 = dict(d, sep="; ", trailing=True)
                tail = [tm.render_line(recs[j], d2) for j in case["perm"][k:]]
            p2 = ctx.write("g2.gff3", "\n".join(tail) + "\n")
            imp_id = None
            if case.get("impostor") and not any(nodes[case["perm"][k]]["id"] in nodes[j]["parents"] for j in case["perm"][:k]):
                # (only when no earlier line names that id as its Parent: delete() also removes the links to children)
                # the id of the tail's first line is first stored under another parent (one that has parents itself, if there
                # is one) and deleted again before the tail arrives: the delete leaves nothing of it behind
                jx = case["perm"][k]
                first_part = [nodes[j] for j in case["perm"][:k]]
                cands = [nd for nd in first_part if nd["parents"]] or first_part
                rec2 = dict(recs[jx], attrs=[(kk, vv) for kk, vv in recs[jx]["attrs"] if kk != "Parent"] + [("Parent", [cands[0]["id"]])])
                p1 = ctx.write("g1i.gff3", "\n".join(lines[:k] + [tm.render_line(rec2, d)]) + "\n")
                imp_id = nodes[jx]["id"]
            db = gffutils.create_db(p1, dbfn)
            if imp_id is not None:
                db.delete(imp_id, make_backup=False)
            for x in list(db.all_features())[:3]:  # look at it before it changes
                list(db.children(x.id))
            if case.get("other_handle") and case["file_db"]:
                # the tail is written through a second handle on the same file, after this handle has answered
                # queries about every feature; this handle (kept open, not reopened) must then see the new relatives
                for x in list(db.all_features()):
                    list(db.children(x.id))
                    list(db.parents(x.id))
                writer = gffutils.FeatureDB(dbfn)
                writer.update(p2, make_backup=False)
                writer.conn.close()
                keep_handle = True
                ctx.count("tail written through a second handle")
            else:
                db.update(p2, make_backup=False)
        else:
            db = gffutils.create_db(path, dbfn)
        if case["file_db"] and not keep_handle:
            db.conn.close()
            db = gffutils.FeatureDB(dbfn)
        c1, c2, p1, p2 = reference(case)
        byid = dict((nd["id"], nd) for nd in nodes)
        stored = set(byid)
        cnt = db.count_features_of_type()
        if cnt != n:
            return Failure("%d features stored for %d lines" % (cnt, n), sig={"kind": "count"})
        got_ids = [f.id for f in db.all_features()]
        if got_ids != [nodes[j]["id"] for j in case["perm"]]:
            return Failure("stored ids %r differ from the file's %r" % (got_ids, [nodes[j]["id"] for j in case["perm"]]),
                           sig={"kind": "ids"})
        for nd in nodes:
            for p in nd["parents"]:
                if p not in stored:
                    try:
                        ph = db[p]
                    except FeatureNotFoundError:
                        pass
                    else:
                        return Failure("dangling Parent %r resolves to a feature %r" % (p, str(ph)), sig={"kind": "phantom"})

        def sort_key(f, ob):
            cols = ob if isinstance(ob, (list, tuple)) else [ob]
            key = []
            for c in cols:
                v = getattr(f, c)
                key.append(v.encode("utf-8") if isinstance(v, str) else v)
            return key

        nq = 0
        for x in byid:
            for method, l1, l2 in (("children", c1, c2), ("parents", p1, p2)):
                fn = getattr(db, method)
                for level, want in ((None, l1[x] | l2[x]), (1, l1[x]), (2, l2[x]), (3, set())):
                    for ft in (None, "exon", ["mRNA", "CDS"], ("gene",)):
                        for ob in (None, "start", ("featuretype", "start")):
                            kw = {"level": level}
                            if ft is not None:
                                kw["featuretype"] = ft
                            if ob is not None:
                                kw["order_by"] = ob
                            arg = x if (nq % 3) else db[x]
                            res = list(fn(arg, **kw))
                            nq += 1
                            got = [f.id for f in res]
                            fts = None if ft is None else ([ft] if isinstance(ft, str) else list(ft))
                            w = set(i for i in want if fts is None or byid[i]["ft"] in fts)
                            if len(got) != len(set(got)):
                                return Failure("%s(%r, %r) returns a feature twice: %r" % (method, x, kw, got),
                                               sig={"kind": "duplicate", "method": method})
                            if x in got:
                                return Failure("%s(%r, %r) contains the feature itself" % (method, x, kw),
                                               sig={"kind": "self", "method": method})
                            if set(got) != w:
                                return Failure(
                                    "%s(%r, %r) = %r, reference graph says %r" % (method, x, kw, sorted(got), sorted(w)),
                                    sig={"kind": "relatives", "method": method, "level": level},
                                )
                            if ob is not None:
                                keys = [sort_key(f, ob) for f in res]
                                if keys != sorted(keys):
                                    return Failure("%s(%r, %r) not sorted by %r" % (method, x, kw, ob), sig={"kind": "order"})
                            for f in res:
                                nd = byid[f.id]
                                if (f.featuretype, f.start, f.end, f.strand) != (nd["ft"], nd["start"], nd["end"], nd["strand"]):
                                    return Failure("%s(%r) returned a feature whose columns differ from its line" % (method, x),
                                                   sig={"kind": "relative-columns"})
        ctx.count("relation queries", nq)
        # iter_by_parent_childs: [gene] + children(gene)
        for unit in db.iter_by_parent_childs(featuretype="gene"):
            g = unit[0].id
            kids = [f.id for f in unit[1:]]
            if byid[g]["ft"] != "gene" or set(kids) != (c1[g] | c2[g]) or len(kids) != len(set(kids)):
                return Failure("iter_by_parent_childs unit for %r has children %r, expected %r" % (g, kids, sorted(c1[g] | c2[g])),
                               sig={"kind": "iter-by-parent"})
        return None


class LargeLeg(object):
    """Files of about a thousand and more features (gene / mRNA / exon trees in a generated line order), imported with
    generated verbose / checklines settings: the whole relation table must equal the reference closure."""
    kind = "hyp"
    name = "large"
    budget = {"quick": (4, 2), "thorough": (16, 8)}

    def strategy(self):
        from hypothesis import strategies as st

        return st.fixed_dictionaries({
            "genes": st.sampled_from([150, 334, 340, 700]),
            "shape": st.lists(st.tuples(st.integers(1, 2), st.integers(1, 2)), min_size=8, max_size=8),
            "order": st.sampled_from(["top-down", "bottom-up", "reversed-genes"]),
            "verbose": st.sampled_from([False, True, True]),
            "file_db": st.booleans(),
            "split": st.booleans(),
        })

    def _build(self, case):
        lines, rel = [], set()
        blocks = []
        for g in range(case["genes"]):
            nm, ne = case["shape"][g % len(case["shape"])]
            gid = "g%d" % g
            blk = [("gene", gid, None)]
            for m in range(nm):
                mid = "%s.m%d" % (gid, m)
                blk.append(("mRNA", mid, gid))
                rel.add((gid, mid, 1))
                for e in range(ne):
                    eid = "%s.e%d" % (mid, e)
                    blk.append(("exon", eid, mid))
                    rel.add((mid, eid, 1))
                    rel.add((gid, eid, 2))
            blocks.append(blk)
        if case["order"] == "bottom-up":
            blocks = [list(reversed(b)) for b in blocks]
        elif case["order"] == "reversed-genes":
            blocks = list(reversed(blocks))
        pos = 1
        for b in blocks:
            for ft, fid, par in b:
                lines.append("chr1\tsrc\t%s\t%d\t%d\t.\t+\t.\tID=%s%s" % (ft, pos, pos + 50, fid, (";Parent=" + par) if par else ""))
                pos += 7
        return lines, rel

    def classify(self, case):
        n = len(self._build(case)[0])
        return n >= 1000, ["features>=1000" if n >= 1000 else "features<1000", "verbose=%s" % case["verbose"], "order=" + case["order"]]

    def check(self, case, ctx):
        import gffutils

        lines, rel = self._build(case)
        dbfn = ctx.path("big.db") if case["file_db"] else ":memory:"
        if case["split"]:
            k = len(lines) // 2
            db = gffutils.create_db(ctx.write("big1.gff3", "\n".join(lines[:k]) + "\n"), dbfn, verbose=case["verbose"])
            db.update(ctx.write("big2.gff3", "\n".join(lines[k:]) + "\n"), make_backup=False, verbose=case["verbose"])
        else:
            db = gffutils.create_db(ctx.write("big.gff3", "\n".join(lines) + "\n"), dbfn, verbose=case["verbose"])
        got = set(tuple(r) for r in db.execute("SELECT parent, child, level FROM relations"))
        if got != rel:
            missing, extra = sorted(rel - got), sorted(got - rel)
            return Failure("%d features (verbose=%r): relation table misses %d rows (first %r) and has %d unexpected (first %r)"
                           % (len(lines), case["verbose"], len(missing), missing[:2], len(extra), extra[:2]),
                           sig={"kind": "relatives-large", "missing": bool(missing), "extra": bool(extra)})
        ids = [l.split("ID=")[1].split(";")[0] for l in lines]
        for fid in (ids[0], ids[len(ids) // 2], ids[-1], ids[-2], ids[-3]):
            kids = set(f.id for f in db.children(fid))
            want = set(c for p_, c, _ in rel if p_ == fid)
            if kids != want:
                return Failure("children(%r) = %r, reference %r (%d features)" % (fid, sorted(kids), sorted(want), len(lines)),
                               sig={"kind": "relatives", "method": "children", "level": None})
        ctx.count("features in large files", len(lines))
        return None


LEGS = [GraphLeg(), LargeLeg()]
