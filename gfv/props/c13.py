"""
C13  All input forms are equivalent and dialect peeking never consumes data.

Differential oracle between the seven input forms (the path form, whose content is the
rendered text model, is the reference and is itself compared with the records), a call
counter for transforms, and collections.Counter for inspect().
"""
import gzip

from gfv import dbsnap
from gfv import textmodel as tm
from gfv.core import Failure
from gfv.props.c09 import _exhibiting_record

PROP = "C13"
RULE = (
    "annotations of 1-8 lines in which every line exhibits the file dialect (so each window of each checklines value "
    "recovers it), incl. '.' coordinates and zero-length (end = start-1) rows; supplied as path, gzip path, string, list of "
    "Features (also as a deque or a dict's values), one-shot generator (and other one-shot iterators: list iterator, map object, a class with __next__), "
    "DataIterator and FeatureDB; verbose on/off; checklines 0..n+2; transform none / tagging / dropping rows "
    "by index with a generated false value; inspect() with generated look_for subsets and limits. Non-trivial = more lines "
    "than checklines+1, or a transform that drops a row. Distinct by hash."
)
ASSUMPTIONS = [
    "every generated line exhibits the dialect (>= 2 rendered parts, a repeated key when keys repeat): otherwise text forms "
    "(re-parsed with the chosen dialect) and Feature forms (parsed line by line) legitimately differ",
    "GTF-style annotations are compared with gene/transcript inference disabled (an inferred import is no longer the same annotation)",
    "a transform keeps at least one row (an empty input is rejected by design)",
]

FORMS = ["path", "gzip", "string", "list", "generator", "dataiterator", "featuredb", "list_iterator", "map_object", "custom_iterator",
         "deque", "dict_values"]
OBJECT_FORMS = ("list", "generator", "list_iterator", "map_object", "custom_iterator", "deque", "dict_values")


class _OneShot(object):
    """A one-shot iterator that is neither a list nor a generator object."""

    def __init__(self, items):
        self._items = list(items)
        self._i = 0

    def __iter__(self):
        return self

    def __next__(self):
        if self._i >= len(self._items):
            raise StopIteration
        self._i += 1
        return self._items[self._i - 1]
FALSY = {"None": None, "False": False, "0": 0, "empty-str": "", "empty-list": []}


def _make_transform(kind, drop, falsy, calls):
    if kind == "none":
        return None

    def t(f):
        i = calls["n"]
        calls["n"] += 1
        calls["seen"].append(str(f))
        if kind == "tag":
            f.attributes["tagged"] = ["yes"]
            return f
        if kind == "copy":
            # a transform may return a new Feature instead of changing its argument
            import copy

            g = copy.deepcopy(f)
            g.attributes["tagged"] = ["copy"]
            g.source = "copied"
            return g
        if i in drop:
            return FALSY[falsy]
        return f

    return t


class FormsLeg(object):
    kind = "hyp"
    name = "forms"
    budget = {"quick": (8, 250), "thorough": (16, 3000)}

    def strategy(self):
        S = tm.strategies()
        st = S.st

        @st.composite
        def case(draw):
            d = draw(S.dialect)
            n = draw(st.integers(1, 8))
            recs = []
            for i in range(n):
                r = _exhibiting_record(draw, S, d["style"], d["repeated"], i)
                z = draw(st.integers(0, 9))
                if z == 0:
                    r["cols"][3] = "."
                elif z == 1:
                    r["cols"][4] = "."
                elif z == 2:
                    r["cols"][3] = r["cols"][4] = "."
                elif z == 3:
                    r["cols"][4] = str(int(r["cols"][3]) - 1)  # zero-length
                recs.append(r)
            kind = draw(st.sampled_from(["none", "tag", "copy", "drop", "drop"]))
            drop = []
            if kind == "drop":
                drop = draw(st.lists(st.integers(0, n - 1), unique=True, max_size=max(0, n - 1)))
            return {
                "dialect": d,
                "records": recs,
                "checklines": draw(st.integers(0, n + 2)),
                "directives": draw(st.sampled_from([[], [], ["##gff-version 3"], ["##a", "##b c"]])),
                "transform": kind,
                "drop": sorted(drop),
                "falsy": draw(st.sampled_from(sorted(FALSY))),
                "gz_crlf": draw(st.booleans()),
                "gz_members": draw(st.booleans()),
                "verbose": draw(st.sampled_from([False, False, True])),
            }

        return case()

    def classify(self, case):
        n = len(case["records"])
        beyond = n > case["checklines"] + 1
        drops = case["transform"] == "drop" and bool(case["drop"])
        labels = ["transform=" + case["transform"], "style=" + case["dialect"]["style"]]
        if beyond:
            labels.append("n>window")
        if any("." in (r["cols"][3], r["cols"][4]) for r in case["records"]):
            labels.append("dot-coord")
        if any(r["cols"][3] != "." and r["cols"][4] != "." and int(r["cols"][4]) < int(r["cols"][3]) for r in case["records"]):
            labels.append("zero-length")
        return beyond or drops, labels

    def check(self, case, ctx):
        import gffutils
        from gffutils.feature import feature_from_line
        from gffutils.iterators import DataIterator

        d, recs, cl = case["dialect"], case["records"], case["checklines"]
        n = len(recs)
        lines = [tm.render_line(r, d) for r in recs]
        text = "\n".join(case["directives"] + lines) + "\n"
        path = ctx.write("a.gff", text)
        gz = ctx.path("a.gff.gz")
        gz_text = text.replace("\n", "\r\n") if case.get("gz_crlf") else text
        if case.get("gz_members") and len(lines) >= 2:
            # a gzip file may consist of several members (cat a.gz b.gz, bgzip): still one annotation
            cut = gz_text.index("\n", len(gz_text) // 2) + 1 if "\n" in gz_text[len(gz_text) // 2:] else len(gz_text)
            with open(gz, "wb") as fh:
                fh.write(gzip.compress(gz_text[:cut].encode("utf-8")))
                fh.write(gzip.compress(gz_text[cut:].encode("utf-8")))
        else:
            with gzip.open(gz, "wb") as fh:
                # the compressed copy may use CRLF line ends: still the same annotation
                fh.write(gz_text.encode("utf-8"))
        dbkw = {}
        if d["style"] == "gtf":
            dbkw = dict(disable_infer_genes=True, disable_infer_transcripts=True)

        def source(form):
            if form == "path":
                return path, {}
            if form == "gzip":
                return gz, {}
            if form == "string":
                return text, {"from_string": True}
            if form == "list":
                return [feature_from_line(l) for l in lines], {}
            if form == "generator":
                return (feature_from_line(l) for l in lines), {}
            if form == "list_iterator":
                return iter([feature_from_line(l) for l in lines]), {}
            if form == "map_object":
                return map(feature_from_line, lines), {}
            if form == "custom_iterator":
                return _OneShot(feature_from_line(l) for l in lines), {}
            if form == "deque":
                import collections

                return collections.deque(feature_from_line(l) for l in lines), {}  # re-iterable, neither list nor tuple
            if form == "dict_values":
                return dict((i, feature_from_line(l)) for i, l in enumerate(lines)).values(), {}
            if form == "dataiterator":
                return DataIterator(path, checklines=cl), {}
            if form == "featuredb":
                return gffutils.create_db(path, ":memory:", checklines=cl, **dbkw), {}
            raise AssertionError(form)

        drop = set(case["drop"])
        kept = [i for i in range(n) if not (case["transform"] == "drop" and i in drop)]

        ref_seq = None
        ref_snap = None
        for form in FORMS:
            # ---- iteration
            calls = {"n": 0, "seen": []}
            t = _make_transform(case["transform"], drop, case["falsy"], calls)
            data, extra = source(form)
            if form == "dataiterator":
                it = DataIterator(path, checklines=cl, transform=t)
            else:
                it = DataIterator(data, checklines=cl, transform=t, **extra)
            seq = [str(f) for f in it]
            if form in ("path", "gzip", "string", "list") and t is None:
                # a re-iterable source stays re-iterable through its DataIterator
                seq_again = [str(f) for f in it]
                if seq_again != seq:
                    return Failure("form %s: a second pass over the same DataIterator yields %d features, the first %d"
                                   % (form, len(seq_again), len(seq)), sig={"kind": "second-pass", "form": form})
            if t is not None and calls["n"] != n:
                return Failure("form %s: transform called %d times for %d features" % (form, calls["n"], n),
                               sig={"kind": "transform-calls", "form": form})
            if len(seq) != len(kept):
                return Failure("form %s (checklines=%d, transform=%s dropping %r): %d features yielded, expected %d"
                               % (form, cl, case["transform"], sorted(drop), len(seq), len(kept)),
                               sig={"kind": "sequence-length", "form": form})
            if case["transform"] == "none" and form == "path":
                # reference form against the model: same lines, same order
                feats = list(DataIterator(path, checklines=cl))
                for f, r in zip(feats, recs):
                    got = [f.seqid, f.source, f.featuretype, f.start, f.end, f.score, f.strand, f.frame]
                    if got != tm.expected_cols(r) or dict((k, list(v)) for k, v in f.attributes.items()) != tm.attrs_dict(r):
                        return Failure("path form parsed %r differently from the record" % tm.render_line(r, d),
                                       sig={"kind": "reference-parse"})
                if seq != lines:
                    return Failure("path form prints %r, input lines %r" % (seq, lines), sig={"kind": "reference-bytes"})
            if case["transform"] in ("tag", "copy") and form == "path":
                for line_out in seq:
                    if ("tagged" not in line_out) or (case["transform"] == "copy" and "\tcopied\t" not in line_out):
                        return Failure("the Feature returned by the transform (%s) is not what is yielded: %r" % (case["transform"], line_out),
                                       sig={"kind": "transform-result"})
            if ref_seq is None:
                ref_seq = seq
            elif seq != ref_seq:
                k = next((i for i, (a, b) in enumerate(zip(seq, ref_seq)) if a != b), min(len(seq), len(ref_seq)))
                return Failure("form %s yields a different sequence than form path at index %d (checklines=%d): %r vs %r"
                               % (form, k, cl, seq[k : k + 1], ref_seq[k : k + 1]), sig={"kind": "sequence", "form": form})
            if t is not None and form in ("path", "generator"):
                # the transform saw each input line exactly once, in order
                want_seen = lines if case["transform"] not in ("tag",) else None
                if want_seen is not None and calls["seen"] != want_seen:
                    return Failure("form %s: transform saw %r" % (form, calls["seen"]), sig={"kind": "transform-args", "form": form})
            if form == "string" and case["transform"] == "none":
                # an iterator over a string that has not been consumed yet survives an import of the same text
                pending = DataIterator(text, checklines=cl, from_string=True)
                gffutils.create_db(text, ":memory:", checklines=cl, from_string=True, **dbkw)
                late = [str(f) for f in pending]
                if late != ref_seq:
                    return Failure("a string-based DataIterator created before an import of the same text yields %d features afterwards, expected %d"
                                   % (len(late), len(ref_seq)), sig={"kind": "pending-string-iterator"})
            # ---- import
            calls = {"n": 0, "seen": []}
            t = _make_transform(case["transform"], drop, case["falsy"], calls)
            data, extra = source(form)
            if form == "dataiterator":
                # a DataIterator is already configured: its own transform is the one that applies
                data = DataIterator(path, checklines=cl, transform=t)
            db = gffutils.create_db(data, ":memory:", checklines=cl, transform=t, verbose=bool(case.get("verbose")), **dict(dbkw, **extra))
            if t is not None and calls["n"] != n:
                return Failure("create_db(form %s): transform called %d times for %d features" % (form, calls["n"], n),
                               sig={"kind": "transform-calls", "form": form})
            snap = dbsnap.snapshot(db)
            if form in ("path", "gzip", "string"):
                if snap["directives"] != [x[2:] for x in case["directives"]]:
                    return Failure("create_db(form %s): directives %r" % (form, snap["directives"]), sig={"kind": "directives"})
            if form in OBJECT_FORMS and snap["directives"]:
                # Feature objects carry no directives: none of an unrelated file read earlier may turn up
                return Failure("create_db(form %s): directives %r although the input was Feature objects" % (form, snap["directives"]),
                               sig={"kind": "directives", "form": form})
            snap["directives"] = []
            if len(snap["features"]) != len(kept):
                return Failure("create_db(form %s): %d rows, expected %d" % (form, len(snap["features"]), len(kept)),
                               sig={"kind": "rows", "form": form})
            if ref_snap is None:
                ref_snap = snap
            else:
                dd = dbsnap.diff(ref_snap, snap)
                if dd:
                    return Failure("create_db(form %s) differs from create_db(path) (checklines=%d): %s" % (form, cl, dd),
                                   sig={"kind": "snapshot", "form": form})
        # a DataIterator over a one-shot source, handed on together with a transform that keeps every feature: whether or not
        # that transform is applied on top, nothing may get lost (create_db and update)
        for maker in (lambda: (feature_from_line(l) for l in lines), lambda: gffutils.create_db(path, ":memory:", checklines=cl, **dbkw)):
            it = DataIterator(maker(), checklines=cl)
            db2 = gffutils.create_db(it, ":memory:", checklines=cl, transform=lambda f: f, **dbkw)
            if db2.count_features_of_type() != n:
                return Failure("create_db(DataIterator over a one-shot source, transform=identity): %d rows, expected %d"
                               % (db2.count_features_of_type(), n), sig={"kind": "rows", "form": "dataiterator+transform"})
        seed_line = "chrS\tsrc\tgene\t1\t2\t.\t+\t.\tID=seedonly"
        db3 = gffutils.create_db(seed_line + "\n", ":memory:", from_string=True)
        db3.update(DataIterator((feature_from_line(l) for l in lines), checklines=cl), transform=lambda f: f,
                   merge_strategy="create_unique", **dbkw)
        if db3.count_features_of_type() != n + 1:
            return Failure("update(DataIterator over a generator, transform=identity): %d rows, expected %d" % (db3.count_features_of_type(), n + 1),
                           sig={"kind": "rows", "form": "update-dataiterator+transform"})
        return None


LOOK = ["featuretype", "chrom", "seqid", "source", "strand", "start", "frame", "attribute_keys", "feature_count"]


class InspectLeg(object):
    kind = "hyp"
    name = "inspect"
    budget = {"quick": (8, 400), "thorough": (16, 5000)}

    def strategy(self):
        S = tm.strategies()
        st = S.st

        @st.composite
        def case(draw):
            d = draw(S.dialect)
            n = draw(st.integers(1, 14))
            recs = [_exhibiting_record(draw, S, d["style"], d["repeated"], i) for i in range(n)]
            return {
                "dialect": d,
                "records": recs,
                "look_for": draw(st.lists(st.sampled_from(LOOK), unique=True, min_size=0, max_size=5)),
                "limit": draw(st.one_of(st.none(), st.integers(1, n + 3))),
                "form": draw(st.sampled_from(["path", "list", "generator", "featuredb", "list_iterator"])),
            }

        return case()

    def classify(self, case):
        n = len(case["records"])
        lim = case["limit"]
        return (lim is not None and lim < n) or n > 11, ["form=" + case["form"], "limit<n" if (lim and lim < n) else "limit>=n/none"]

    def check(self, case, ctx):
        from collections import Counter

        import gffutils
        from gffutils.feature import feature_from_line
        from gffutils.inspect import inspect

        from gffutils.iterators import DataIterator

        d, recs = case["dialect"], case["records"]
        n = len(recs)
        lines = [tm.render_line(r, d) for r in recs]
        path = ctx.write("i.gff", "\n".join(lines) + "\n")
        form = case["form"]
        if form == "path":
            data = path
        elif form == "list":
            data = [feature_from_line(l) for l in lines]
        elif form == "generator":
            data = (feature_from_line(l) for l in lines)
        elif form == "list_iterator":
            data = iter([feature_from_line(l) for l in lines])
        else:
            kw = dict(disable_infer_genes=True, disable_infer_transcripts=True) if d["style"] == "gtf" else {}
            data = gffutils.create_db(path, ":memory:", **kw)
        from gffutils.iterators import DataIterator

        if form == "path" and n % 3 == 0 and n >= 2:
            # counts are of what was iterated: features a transform dropped are not counted
            it_t = DataIterator(path, transform=lambda f: f if f.start % 2 == 0 else None)
            kept = [r for r in recs if int(r["cols"][3]) % 2 == 0]
            if kept:
                r2 = inspect(it_t, look_for=["featuretype"], verbose=False)
                c2 = Counter(r["cols"][2] for r in kept)
                if r2 != {"featuretype": dict(c2), "feature_count": len(kept)}:
                    return Failure("inspect() over a DataIterator whose transform drops rows reports %r, iterated were %d features %r"
                                   % (r2, len(kept), dict(c2)), sig={"kind": "inspect-transform"})
        through_iterator = form in ("generator", "list_iterator") and n % 2 == 0
        if through_iterator:
            data = DataIterator(data)
        res = inspect(data, look_for=list(case["look_for"]), limit=case["limit"], verbose=False)
        m = n if not case["limit"] else min(n, case["limit"])
        if through_iterator:
            # inspect() reports what it iterated: the rest of a one-shot source is still there afterwards
            rest = sum(1 for _ in data)
            if rest != n - m:
                return Failure("inspect(limit=%r) reported %d features of %d; %d are left in the one-shot source, expected %d"
                               % (case["limit"], m, n, rest, n - m), sig={"kind": "inspect-consumed"})
        want = {"feature_count": m}
        for k in case["look_for"]:
            if k == "feature_count":
                continue
            c = Counter()
            for r in recs[:m]:
                cols = tm.expected_cols(r)
                if k == "attribute_keys":
                    c.update(tm.attrs_dict(r).keys())
                else:
                    idx = {"chrom": 0, "seqid": 0, "source": 1, "featuretype": 2, "start": 3, "strand": 6, "frame": 7}[k]
                    c.update([cols[idx]])
            want[k] = dict(c)
        if res != want:
            return Failure("inspect(%s, look_for=%r, limit=%r) = %r, expected %r" % (form, case["look_for"], case["limit"], res, want),
                           sig={"kind": "inspect"})
        return None


LEGS = [FormsLeg(), InspectLeg()]
