"""
C11  Feature-type/strand filters, ordering and counts agree with a full scan.

Oracle: brute-force filter of the generated list; the result must be a permutation of it
and monotone under SQLite's comparison rules (NULL first, integers numerically, text by
UTF-8 bytes) for the requested key(s).
"""
from gfv.core import Failure

PROP = "C11"
RULE = (
    "databases of 3-30 features with mixed-case / non-ASCII / numeric-looking seqids, text scores (., 10, 9.5, 1e3), '.' "
    "coordinates and many ties; ~25 queries each over all_features / features_of_type with featuretype (str, list, tuple), "
    "strand, order_by (every valid column incl. 'length' and 'file_order', as a string and in tuples of 1-3) and reverse "
    "(single column). Non-trivial database = some query has >= 2 distinct sort keys among its results and a tie or a "
    "non-ASCII / numeric-looking key. Distinct by hash."
)
ASSUMPTIONS = [
    "ordering follows SQLite's BINARY collation and type ordering (NULL < integers < text); ties may come in any order",
    "reverse is only asserted for a single order_by column (statement)",
    "empty featuretype collections / empty strings are not generated ('no filter' by design)",
]

COLS = ["seqid", "source", "featuretype", "start", "end", "score", "strand", "frame", "attributes", "extra", "file_order", "length"]
SEQIDS = ["chr1", "Chr1", "CHR1", "χ1", "10", "9", "2", "chr10", "chr2"]
FTS = ["gene", "exon", "CDS", "Gene", "mRNA", "CDS,exon"]  # a featuretype may contain a comma (merged featuretypes do): it is one featuretype


def sk(v):
    """SQLite ordering key."""
    if v is None:
        return (0, 0)
    if isinstance(v, int):
        return (1, v)
    return (2, v.encode("utf-8"))


class OrderLeg(object):
    kind = "hyp"
    name = "ordering"
    budget = {"quick": (16, 150), "thorough": (16, 3000)}

    def strategy(self):
        from hypothesis import strategies as st

        @st.composite
        def query(draw):
            method = draw(st.sampled_from(["all_features", "features_of_type"]))
            ft = draw(st.sampled_from([None, "exon", "gene", ["exon", "CDS"], ("gene", "Gene"), ["mRNA"], ("nothing",), "CDS,exon", ["CDS,exon", "gene"]]))
            if method == "features_of_type" and ft is None:
                ft = "exon"
            ob_kind = draw(st.sampled_from(["none", "str", "str", "tuple", "tuple"]))
            if ob_kind == "none":
                ob = None
            elif ob_kind == "str":
                ob = draw(st.sampled_from(COLS))
            else:
                ob = draw(st.lists(st.sampled_from(COLS), min_size=1, max_size=3, unique=True))
                if draw(st.booleans()):
                    ob = {"tuple": ob}
            single = ob is not None and (isinstance(ob, str) or len(ob["tuple"] if isinstance(ob, dict) else ob) == 1)
            return {"method": method, "featuretype": ft, "strand": draw(st.sampled_from([None, None, "+", "-", "."])),
                    "order_by": ob, "reverse": single and draw(st.booleans()),
                    "limit_seqid": draw(st.sampled_from([None, None, None, "chr1", "10"]))}

        @st.composite
        def case(draw):
            n = draw(st.integers(3, 30))
            feats = []
            for i in range(n):
                z = draw(st.integers(0, 11))
                start = draw(st.sampled_from([1, 5, 5, 10, 100, 1000]))
                end = start + draw(st.sampled_from([0, 0, 4, 9, 99, 1000]))
                s, e = str(start), str(end)
                if z == 0:
                    s = "."
                elif z == 1:
                    e = "."
                elif z == 2:
                    s = e = "."
                feats.append({
                    "cols": [draw(st.sampled_from(SEQIDS)), draw(st.sampled_from(["src", "Src", "é"])), draw(st.sampled_from(FTS)),
                             s, e, draw(st.sampled_from([".", "10", "9.5", "1e3", "9"])), draw(st.sampled_from(["+", "-", "."])),
                             draw(st.sampled_from([".", "0", "1", "2"]))],
                    "note": draw(st.sampled_from(["", "a", "B", "é", "10", "9"])),
                    "extra": draw(st.sampled_from([[], [], ["x"], ["10"], ["9", "a"]])),
                })
            return {"features": feats, "queries": draw(st.lists(query(), min_size=20, max_size=28)), "file_db": draw(st.booleans()),
                    "other_handle_pragmas": draw(st.integers(0, 9)) == 0, "touch_first": draw(st.integers(0, 3)) == 0}

        return case()

    def _rows(self, case):
        rows = []
        for i, f in enumerate(case["features"]):
            c = list(f["cols"])
            start = None if c[3] == "." else int(c[3])
            end = None if c[4] == "." else int(c[4])
            rows.append({"id": "f%d" % i, "seqid": c[0], "source": c[1], "featuretype": c[2], "start": start, "end": end,
                         "score": c[5], "strand": c[6], "frame": c[7], "file_order": i + 1,
                         "length": None if (start is None or end is None) else end - start})
        return rows

    def _cols(self, ob):
        if ob is None:
            return []
        if isinstance(ob, str):
            return [ob]
        if isinstance(ob, dict):
            return list(ob["tuple"])
        return list(ob)

    def _filter(self, rows, q):
        ft = q["featuretype"]
        fts = None if ft is None else ([ft] if isinstance(ft, str) else list(ft))
        out = [r for r in rows if (fts is None or r["featuretype"] in fts) and (q["strand"] is None or r["strand"] == q["strand"])]
        if q.get("limit_seqid"):
            # limit=(seqid, 1, 2**28): everything with coordinates on that seqid (generated coordinates are far below 2**28)
            out = [r for r in out if r["seqid"] == q["limit_seqid"] and r["start"] is not None and r["end"] is not None]
        return out

    def classify(self, case):
        rows = self._rows(case)
        nt = False
        labels = []
        for q in case["queries"]:
            cols = self._cols(q["order_by"])
            exp = self._filter(rows, q)
            if cols:
                keys = [tuple(sk(r.get(c)) if c not in ("attributes", "extra") else (2, r["id"].encode()) for c in cols) for r in exp]
                if len(set(keys)) >= 2 and (len(set(keys)) < len(keys) or any(c in ("seqid", "score", "source") for c in cols)):
                    nt = True
                for c in cols:
                    labels.append("order_by:" + c)
                labels.append("order_by-form:" + ("str" if isinstance(q["order_by"], str) else "tuple" if isinstance(q["order_by"], dict) else "list"))
            if q["reverse"]:
                labels.append("reverse")
        return nt, labels

    def check(self, case, ctx):
        import gffutils

        feats = case["features"]
        lines = []
        for i, f in enumerate(feats):
            attrs = "ID=f%d" % i + (";note=%s" % f["note"] if f["note"] else "")
            lines.append("\t".join(f["cols"] + [attrs] + f["extra"]))
        if case.get("other_handle_pragmas"):
            # pragmas given to one handle are that handle's business
            other = gffutils.create_db("chrZ\t.\tgene\t1\t2\t.\t+\t.\tID=z\n", ":memory:", from_string=True)
            other.set_pragmas({"reverse_unordered_selects": "ON"})
        db = gffutils.create_db("\n".join(lines) + "\n", ctx.path("q.db") if case.get("file_db") else ":memory:", from_string=True)
        if case.get("touch_first") and len(feats) >= 2:
            # add_relation() with a func re-writes the row of the feature the func returns; the feature keeps its place
            db.add_relation("f0", "f1", 1, parent_func=lambda parent, child: parent)
        rows = self._rows(case)
        byid = dict((r["id"], r) for r in rows)
        for r_ in db.execute("SELECT id, attributes, extra FROM features"):
            byid[r_[0]]["attributes"] = r_[1]
            byid[r_[0]]["extra"] = r_[2]

        # input order, counts, distinct values
        if [f.id for f in db.all_features()] != [r["id"] for r in rows]:
            return Failure("all_features() without order_by is not in input order", sig={"kind": "input-order"})
        if db.count_features_of_type() != len(rows):
            return Failure("count_features_of_type() = %r for %d features" % (db.count_features_of_type(), len(rows)), sig={"kind": "count"})
        for t in FTS + ["absent"]:
            n1 = db.count_features_of_type(t)
            n2 = len(list(db.features_of_type(t)))
            n3 = sum(1 for r in rows if r["featuretype"] == t)
            if not (n1 == n2 == n3):
                return Failure("featuretype %r: count_features_of_type=%r, iterated=%r, in the input=%r" % (t, n1, n2, n3), sig={"kind": "count"})
        fts = list(db.featuretypes())
        if sorted(fts) != sorted(set(r["featuretype"] for r in rows)) or len(fts) != len(set(fts)):
            return Failure("featuretypes() = %r" % fts, sig={"kind": "distinct"})
        # a listing is not cut short by another listing started before it is finished
        inter_s, inter_t = [], []
        for sname in db.seqids():
            inter_s.append(sname)
            inter_t.append(sorted(db.featuretypes()))
        pairs = list(zip(db.featuretypes(), db.featuretypes()))
        if sorted(inter_s) != sorted(set(r["seqid"] for r in rows)) or any(t != sorted(set(r["featuretype"] for r in rows)) for t in inter_t) \
                or len(pairs) != len(set(r["featuretype"] for r in rows)):
            return Failure("interleaved seqids()/featuretypes() listings are incomplete: %r / %r" % (inter_s, pairs), sig={"kind": "distinct-interleaved"})
        sq = list(db.seqids())
        if sorted(sq) != sorted(set(r["seqid"] for r in rows)) or len(sq) != len(set(sq)):
            return Failure("seqids() = %r" % sq, sig={"kind": "distinct"})

        for q in case["queries"]:
            kw = {}
            ob = q["order_by"]
            if ob is not None:
                kw["order_by"] = tuple(ob["tuple"]) if isinstance(ob, dict) else ob
            if q["reverse"]:
                kw["reverse"] = True
            if q["strand"] is not None:
                kw["strand"] = q["strand"]
            if q.get("limit_seqid"):
                kw["limit"] = (q["limit_seqid"], 1, 2 ** 28)
            ft = q["featuretype"]
            if isinstance(ft, list) and q["method"] == "all_features" and len(ft) > 1:
                pass
            if q["method"] == "all_features":
                if ft is not None:
                    kw["featuretype"] = tuple(ft) if isinstance(ft, tuple) else ft
                res = list(db.all_features(**kw))
                desc = "all_features(%r)" % (kw,)
            else:
                res = list(db.features_of_type(tuple(ft) if isinstance(ft, tuple) else ft, **kw))
                desc = "features_of_type(%r, %r)" % (ft, kw)
            ctx.count("queries")
            got = [f.id for f in res]
            exp = [r["id"] for r in self._filter(rows, q)]
            if sorted(got) != sorted(exp):
                return Failure("%s returned %r, the matching features are %r" % (desc, got, exp),
                               sig={"kind": "filter", "dup": len(got) != len(set(got))})
            cols = self._cols(ob)
            if not cols:
                # only a full, unfiltered iteration is promised in input order
                if q["featuretype"] is None and q["strand"] is None and not q.get("limit_seqid") and got != exp:
                    return Failure("%s is not in input order: %r" % (desc, got), sig={"kind": "input-order"})
                continue
            keys = [tuple(sk(byid[i][c]) for c in cols) for i in got]
            want = sorted(keys, reverse=bool(q["reverse"]))
            if keys != want:
                return Failure("%s is not sorted by %r%s: keys %r" % (desc, cols, " descending" if q["reverse"] else "", keys[:6]),
                               sig={"kind": "order", "col": cols[0], "reverse": bool(q["reverse"])})
            # returned objects carry their own columns
            for f in res:
                r = byid[f.id]
                if (f.seqid, f.start, f.end, f.score, f.featuretype) != (r["seqid"], r["start"], r["end"], r["score"], r["featuretype"]):
                    return Failure("%s returned %r with columns differing from its line" % (desc, f.id), sig={"kind": "row"})
        # counts and distinct values keep agreeing with a full scan after the content changed
        # through the same handle (delete, then update)
        victims = [r["id"] for i, r in enumerate(rows) if i % 3 == 0]
        db.delete(victims, make_backup=False)
        left = [r for r in rows if r["id"] not in victims]
        bad = self._recount(db, left, "after delete()")
        if bad:
            return bad
        from gffutils.feature import feature_from_line

        extra = [feature_from_line("chrNew\tsrc\tCDS\t1\t9\t.\t+\t.\tID=added%d" % i) for i in range(2)]
        db.update(extra, make_backup=False)
        left = left + [{"id": "added%d" % i, "featuretype": "CDS", "seqid": "chrNew"} for i in range(2)]
        return self._recount(db, left, "after update()")

    def _recount(self, db, rows, when):
        total = db.count_features_of_type()
        if total != len(rows):
            return Failure("%s: count_features_of_type() = %r, %d features are stored" % (when, total, len(rows)), sig={"kind": "count-stale"})
        for t in FTS:
            n1 = db.count_features_of_type(t)
            n2 = len(list(db.features_of_type(t)))
            n3 = sum(1 for r in rows if r["featuretype"] == t)
            if not (n1 == n2 == n3):
                return Failure("%s: featuretype %r: count_features_of_type=%r, iterated=%r, stored=%r" % (when, t, n1, n2, n3),
                               sig={"kind": "count-stale"})
        if sorted(db.featuretypes()) != sorted(set(r["featuretype"] for r in rows)):
            return Failure("%s: featuretypes() = %r" % (when, sorted(db.featuretypes())), sig={"kind": "distinct-stale"})
        if sorted(db.seqids()) != sorted(set(r["seqid"] for r in rows)):
            return Failure("%s: seqids() = %r" % (when, sorted(db.seqids())), sig={"kind": "distinct-stale"})
        return None


LEGS = [OrderLeg()]
