"""
C19  Existing databases are never clobbered; queries never write.

(clobber) differential: create_db onto an existing file without force must raise and
leave the file's logical content unchanged; with force the result must equal an import
of the new input into a fresh path.
(reads) instrumentation from outside: sqlite3 set_trace_callback on FeatureDB.conn sees
every SQL statement a generated sequence of read-style calls issues; only SELECT / PRAGMA
/ EXPLAIN may appear, and the reopened file's snapshot (and bytes) must be unchanged.
"""
import hashlib

from gfv import dbsnap
from gfv.core import Failure

PROP = "C19"
RULE = (
    "(clobber) triples (old annotation, new annotation, force) over GFF3 and GTF inputs of 1-6 features on file databases (old databases optionally emptied, without statistics, or holding duplicate-key bookkeeping from an unmergeable 'merge' collision; the duplicates table is compared as well); "
    "non-trivial = old and new inputs differ. (reads) sequences of 5-30 read-style calls (look-ups incl. missing ids, "
    "all_features / features_of_type with filters, ordering and limits, children / parents, region, interfeatures, "
    "create_introns, create_splice_sites, merge, children_bp, bed12, counts, iter_by_parent_childs) with generated "
    "arguments, generators consumed fully or abandoned after one item, on generated GFF3/GTF databases; non-trivial = >= 3 "
    "different methods of which one iterates a generator to the end. Distinct by hash."
)
ASSUMPTIONS = [
    "a read-style call may raise (missing id, blocks not spanning): that is not a write",
    "statements are classified by their first keyword; SELECT / PRAGMA / EXPLAIN are reads",
    "file bytes are compared against a copy taken after one open/close cycle (opening may legitimately touch the header)",
]


def _gff(feats):
    return "\n".join(feats) + "\n"


def make_annotation(spec):
    """spec: {"gtf": bool, "genes": [[n_tx, [n_exons...]], ...], "tag": str} -> text
    ({"empty": text} is an input without any feature line)"""
    if "empty" in spec:
        return spec["empty"]
    lines = []
    tag = spec["tag"]
    for gi, txs in enumerate(spec["genes"]):
        gid = "%sg%d" % (tag, gi)
        strand = "+" if gi % 2 == 0 else "-"
        pos = 100 * gi + 1
        if not spec["gtf"]:
            lines.append("chr1\tsrc\tgene\t%d\t%d\t.\t%s\t.\tID=%s" % (pos, pos + 900, strand, gid))
        for ti, nex in enumerate(txs):
            tid = "%s.t%d" % (gid, ti)
            if not spec["gtf"]:
                lines.append("chr1\tsrc\tmRNA\t%d\t%d\t.\t%s\t.\tID=%s;Parent=%s" % (pos, pos + 60 * nex, strand, tid, gid))
            for ei in range(nex):
                a = pos + 60 * ei
                b = a + 30
                if spec["gtf"]:
                    lines.append('chr1\tsrc\texon\t%d\t%d\t.\t%s\t.\tgene_id "%s"; transcript_id "%s";' % (a, b, strand, gid, tid))
                    lines.append('chr1\tsrc\tCDS\t%d\t%d\t.\t%s\t0\tgene_id "%s"; transcript_id "%s";' % (a + 2, b - 2, strand, gid, tid))
                else:
                    lines.append("chr1\tsrc\texon\t%d\t%d\t.\t%s\t.\tID=%s.e%d;Parent=%s" % (a, b, strand, tid, ei, tid))
                    lines.append("chr1\tsrc\tCDS\t%d\t%d\t.\t%s\t0\tID=%s.c%d;Parent=%s" % (a + 2, b - 2, strand, tid, ei, tid))
    return _gff(lines)


def _sha(path):
    with open(path, "rb") as fh:
        return hashlib.sha1(fh.read()).hexdigest()


def spec_strategy(st, tag):
    return st.fixed_dictionaries({
        "gtf": st.booleans(),
        "genes": st.lists(st.lists(st.integers(1, 3), min_size=1, max_size=2), min_size=1, max_size=2),
        "tag": st.just(tag),
    })


class ClobberLeg(object):
    kind = "hyp"
    name = "clobber"
    budget = {"quick": (8, 300), "thorough": (16, 4000)}

    def strategy(self):
        from hypothesis import strategies as st

        return st.fixed_dictionaries({
            "old": spec_strategy(st, "o"),
            "new": st.one_of(spec_strategy(st, "n"), spec_strategy(st, "o"), spec_strategy(st, "n"),
                             st.sampled_from([{"empty": ""}, {"empty": "##gff-version 3\n# nothing here\n"}, {"empty": "\n\n"}])),
            "force": st.booleans(),
            "old_dups": st.booleans(),
            "keep_open": st.booleans(),
            "old_emptied": st.sampled_from([False, False, True]),
            "old_no_stats": st.sampled_from([False, False, True]),
            "dbname": st.sampled_from(["target.db", "target.db", "annotation[1].db", "a*b?.db", "sp ace.db"]),
            "call_form": st.sampled_from(["keywords", "keywords", "positional-id_spec"]),
            "tilde": st.integers(0, 7).map(lambda v: v == 0),
        })

    def classify(self, case):
        differ = make_annotation(case["old"]) != make_annotation(case["new"])
        newkind = "empty" if "empty" in case["new"] else ("gtf" if case["new"]["gtf"] else "gff3")
        return differ, ["force=%s" % case["force"], "old-%s new-%s" % ("gtf" if case["old"]["gtf"] else "gff3", newkind)] + (
            ["old-emptied"] if case.get("old_emptied") else [])

    def check(self, case, ctx):
        import gffutils

        old_text = make_annotation(case["old"])
        new_text = make_annotation(case["new"])
        p_old = ctx.write("old.txt", old_text)
        p_new = ctx.write("new.txt", new_text)
        dbfn = ctx.path(case.get("dbname") or "target.db")
        db = gffutils.create_db(p_old, dbfn)
        if case.get("old_emptied"):
            # an existing database need not hold features any more: it still has directives, dialect and id counters
            db.delete([f.id for f in db.all_features()], make_backup=False)
        if case.get("old_dups") and not case.get("old_emptied"):
            # the old database also holds duplicate-key bookkeeping (its first feature arrived a second time with another source, merge_strategy='merge')
            first = next(iter(db.all_features()))
            first.source = "elsewhere"  # other columns differ: 'merge' files it under '<key>_1' and records the pair
            db.update([first], merge_strategy="merge", make_backup=False)
        if case.get("old_no_stats"):
            # databases written by old gffutils versions have no ANALYZE statistics; FeatureDB opens them (with a warning)
            db.execute("DROP TABLE IF EXISTS sqlite_stat1")
            db.conn.commit()
        snap_old = dbsnap.snapshot(db)
        if not case["keep_open"]:
            db.conn.close()
        new_is_gtf = "empty" not in case["new"] and case["new"]["gtf"]
        spec3 = {"gene": "gene_id", "transcript": "transcript_id"} if new_is_gtf else "ID"  # the defaults, spelled out
        positional = case.get("call_form") == "positional-id_spec"
        if not case["force"]:
            target = dbfn
            import os as _os0

            old_home = _os0.environ.get("HOME")
            if case.get("tilde"):
                # the existing file named the way a shell user would: ~/<file> with HOME set to its directory
                _os0.environ["HOME"] = _os0.path.dirname(dbfn)
                target = "~/" + _os0.path.basename(dbfn)
            try:
                # (id_spec is the documented third positional parameter)
                db2 = gffutils.create_db(p_new, target, spec3) if positional else gffutils.create_db(p_new, target)
            except Exception as e:  # noqa - any refusal is a refusal
                db2 = None
            finally:
                if case.get("tilde"):
                    if old_home is None:
                        _os0.environ.pop("HOME", None)
                    else:
                        _os0.environ["HOME"] = old_home
            if db2 is not None:
                return Failure("create_db on an existing database without force=True did not raise", sig={"kind": "no-refusal"})
            import os as _os

            if not _os.path.exists(dbfn):
                return Failure("a refused create_db (force=False) removed the existing database file", sig={"kind": "refused-but-removed"})
            again = gffutils.FeatureDB(dbfn)
            snap_now = dbsnap.snapshot(again)
            again.conn.close()
            dd = dbsnap.diff(snap_old, snap_now)
            if dd or snap_old != snap_now:
                return Failure("a refused create_db changed the existing database: %s" % dd, sig={"kind": "refused-but-changed"})
        elif "empty" in case["new"]:
            pass  # force=True with an input that has no features: rejected by design, outcome not specified
        else:
            db2 = gffutils.create_db(p_new, dbfn, spec3, True) if positional else gffutils.create_db(p_new, dbfn, force=True)
            snap_forced = dbsnap.snapshot(db2)
            db2.conn.close()
            fresh_fn = ctx.path("fresh.db")
            fresh = gffutils.create_db(p_new, fresh_fn)
            snap_fresh = dbsnap.snapshot(fresh)
            fresh.conn.close()
            dups = []
            for fn in (dbfn, fresh_fn):
                h = gffutils.FeatureDB(fn)
                dups.append(sorted(tuple(r) for r in h.execute("SELECT idspecid, newid FROM duplicates")))
                h.conn.close()
            if dups[0] != dups[1]:
                return Failure("create_db(force=True) left duplicate-key bookkeeping %r in the new database (a fresh import has %r)"
                               % (dups[0][:4], dups[1][:4]), sig={"kind": "force-leftovers-duplicates"})
            dd = dbsnap.diff(snap_fresh, snap_forced)
            if dd or snap_fresh != snap_forced:
                return Failure("create_db(force=True) differs from an import into a fresh path: %s" % dd, sig={"kind": "force-leftovers"})
            reopened = gffutils.FeatureDB(dbfn)
            snap_re = dbsnap.snapshot(reopened)
            reopened.conn.close()
            if snap_re != snap_fresh:
                return Failure("reopened forced database differs from a fresh import: %s" % dbsnap.diff(snap_fresh, snap_re),
                               sig={"kind": "force-leftovers"})
        if case["keep_open"]:
            db.conn.close()
        return None


OPS = ["getitem", "getitem_missing", "all_features", "features_of_type", "children", "parents", "region", "interfeatures",
       "create_introns", "create_splice_sites", "merge", "children_bp", "bed12", "counts", "iter_by_parent", "featuretypes",
       "getitem_feature"]
GENERATOR_OPS = {"all_features", "features_of_type", "children", "parents", "region", "interfeatures", "create_introns",
                 "create_splice_sites", "merge", "iter_by_parent", "featuretypes"}


class ReadsLeg(object):
    kind = "hyp"
    name = "reads"
    budget = {"quick": (8, 300), "thorough": (16, 4000)}

    def strategy(self):
        from hypothesis import strategies as st

        op = st.fixed_dictionaries({
            "op": st.sampled_from(OPS),
            "i": st.integers(0, 30),
            "ft": st.sampled_from([None, "exon", "CDS", ["exon", "CDS"], "gene", "mRNA", "transcript", "absent"]),
            "strand": st.sampled_from([None, "+", "-"]),
            "order_by": st.sampled_from([None, "start", "length", ("seqid", "start"), "file_order"]),
            "reverse": st.booleans(),
            "level": st.sampled_from([None, 1, 2, 3, 5]),
            "limit": st.sampled_from([None, ("chr1", 1, 200), "chr1:50-400"]),
            "within": st.booleans(),
            "consume": st.sampled_from(["all", "all", "one"]),
            "flag": st.booleans(),
        })
        return st.fixed_dictionaries({"spec": spec_strategy(st, "r"), "ops": st.lists(op, min_size=5, max_size=30),
                                      "failed_write_first": st.sampled_from([False, False, True]),
                                      "merge_all_first": st.sampled_from([False, False, True])})

    def classify(self, case):
        kinds = set(o["op"] for o in case["ops"])
        full = any(o["op"] in GENERATOR_OPS and o["consume"] == "all" for o in case["ops"])
        return len(kinds) >= 3 and full, ["gtf" if case["spec"]["gtf"] else "gff3"] + ["op:" + k for k in sorted(kinds)]

    def _run_op(self, db, o, ids):
        def take(gen):
            if o["consume"] == "one":
                it = iter(gen)
                try:
                    next(it)
                except StopIteration:
                    pass
                return
            for _ in gen:
                pass

        some = ids[o["i"] % len(ids)]
        kw = {}
        if o["order_by"] is not None:
            kw["order_by"] = o["order_by"]
            if o["reverse"] and isinstance(o["order_by"], str):
                kw["reverse"] = True
        if o["limit"] is not None:
            kw["limit"] = o["limit"]
            kw["completely_within"] = o["within"]
        name = o["op"]
        if name == "getitem":
            db[some]
        elif name == "getitem_feature":
            db[db[some]]
        elif name == "getitem_missing":
            db[some + "?"]
        elif name == "all_features":
            take(db.all_features(featuretype=o["ft"], strand=o["strand"], **kw))
        elif name == "features_of_type":
            take(db.features_of_type(o["ft"] or "exon", strand=o["strand"], **kw))
        elif name == "children":
            take(db.children(some, level=o["level"], featuretype=o["ft"], **kw))
        elif name == "parents":
            take(db.parents(some if o["flag"] else db[some], level=o["level"], featuretype=o["ft"], **kw))
        elif name == "region":
            if o["flag"]:
                take(db.region(("chr1", 1 + o["i"] * 10, 200 + o["i"] * 10), featuretype=o["ft"], strand=o["strand"], completely_within=o["within"]))
            else:
                take(db.region(seqid="chr1", start=10 * o["i"] + 1, strand=o["strand"]))
        elif name == "interfeatures":
            take(db.interfeatures(db.features_of_type("exon", order_by="start"), new_featuretype="gap" if o["flag"] else None,
                                  merge_attributes=not o["within"], numeric_sort=o["reverse"]))
        elif name == "create_introns":
            take(db.create_introns(merge_attributes=o["flag"]))
        elif name == "create_splice_sites":
            take(db.create_splice_sites())
        elif name == "merge":
            take(db.merge(db.all_features(featuretype=o["ft"] or "exon", order_by=("seqid", "strand", "start"))))
        elif name == "children_bp":
            db.children_bp(some, child_featuretype=o["ft"] if isinstance(o["ft"], str) else "exon", merge=o["flag"])
        elif name == "bed12":
            db.bed12(some, name_field="ID" if o["flag"] else "transcript_id")
        elif name == "counts":
            db.count_features_of_type(o["ft"] if isinstance(o["ft"], str) else None)
            list(db.seqids())
        elif name == "iter_by_parent":
            take(db.iter_by_parent_childs(featuretype="gene"))
        elif name == "featuretypes":
            take(db.featuretypes())
        else:
            raise AssertionError(name)

    def check(self, case, ctx):
        import gffutils

        text = make_annotation(case["spec"])
        src = ctx.write("a.txt", text)
        dbfn = ctx.path("r.db")
        db = gffutils.create_db(src, dbfn)
        if case.get("merge_all_first"):
            # the database was written to by merge_all() in an earlier session (merged features stored under generated ids)
            db.merge_all(exclude_components=False)
        db.conn.close()
        # one open/close cycle before taking the reference bytes
        tmp = gffutils.FeatureDB(dbfn)
        snap0 = dbsnap.snapshot(tmp)
        ids = [row["id"] for row in snap0["features"]]
        tmp.conn.close()
        sha0 = _sha(dbfn)

        db = gffutils.FeatureDB(dbfn)
        if case.get("failed_write_first") and len(ids) >= 2:
            # an earlier write on this handle failed half way (the docstring's own parent_func example returns
            # None): its pending row must not be made durable by any later read-style call
            try:
                db.add_relation(ids[0], ids[-1], 7, parent_func=lambda parent, child: None)
            except Exception:  # noqa
                pass
        statements = []
        db.conn.set_trace_callback(statements.append)
        writes = []
        n_raised = 0
        for k, o in enumerate(case["ops"]):
            mark = len(statements)
            try:
                self._run_op(db, o, ids)
            except Exception:  # noqa - a read-style call may raise; that is not a write
                n_raised += 1
            for s in statements[mark:]:
                word = s.strip().split(None, 1)[0].upper() if s.strip() else ""
                if word not in ("SELECT", "PRAGMA", "EXPLAIN") and not (word == "ROLLBACK"):
                    writes.append((k, o["op"], s.strip()[:120]))
            if writes:
                break
        db.conn.set_trace_callback(None)
        ctx.count("SQL statements traced", len(statements))
        ctx.count("read calls", len(case["ops"]))
        ctx.count("read calls that raised", n_raised)
        if writes:
            k, name, s = writes[0]
            return Failure("read-style call #%d %s issued a non-read statement: %r" % (k, name, s),
                           sig={"kind": "write-statement", "op": name})
        if db.conn.in_transaction and not case.get("failed_write_first"):
            return Failure("a transaction is open after read-style calls", sig={"kind": "open-transaction"})
        db.conn.close()
        again = gffutils.FeatureDB(dbfn)
        snap1 = dbsnap.snapshot(again)
        again.conn.close()
        if snap1 != snap0:
            return Failure("database content changed by read-style calls: %s" % dbsnap.diff(snap0, snap1), sig={"kind": "content-changed"})
        if _sha(dbfn) != sha0:
            return Failure("database file bytes changed by read-style calls", sig={"kind": "bytes-changed"})
        return None


LEGS = [ClobberLeg(), ReadsLeg()]
