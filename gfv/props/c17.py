"""
C17  Attribute container, JSON storage form and feature equality are coherent.

Five relations (DESIGN C17): list-wrapping however values are set; always_return_list is
a view only; JSON text round trip is the identity and keeps key order (also through a
database); merge_attributes is the per-key sorted duplicate-free union and leaves its
arguments alone; == / != / hash agree with the printed line.
"""
import copy

from gfv.core import Failure

PROP = "C17"
RULE = (
    "mappings with arbitrary-Unicode keys and values, empty lists, scalars and tuples, set through Feature[...], "
    ".attributes[...], .attributes.update and the constructor, under both always_return_list settings (a labelled share calls FeatureDB.bed12 - by Feature or id, name field present or absent - while the switch is off: it stays off); pairs of mappings "
    "(plain dicts and Attributes) for merge_attributes with numeric_sort on/off; pairs of Features differing in one field, "
    "in attribute order or in dialect. Non-trivial = a non-ASCII or reserved character, a scalar or empty value, or (pairs) a "
    "shared key with different values. Distinct by hash."
)
ASSUMPTIONS = [
    "text is Unicode scalar values (no lone surrogates: not encodable, SQLite cannot store them)",
    "numeric order is asserted when every value of a key parses as a finite float; float ties may come in either order",
    "always_return_list is restored after every case (try/finally)",
]

LINE = "chr1\tsrc\tgene\t10\t20\t.\t+\t.\tID=base;Name=n1,n2"


def _set_all(f, items, how):
    for k, v in items:
        val = v
        if isinstance(v, dict):  # {"tuple": [...]} marks a tuple
            val = tuple(v["tuple"])
        if how == "feature":
            f[k] = val
        elif how == "mapping":
            f.attributes[k] = val
        else:
            f.attributes.update({k: val})


def _expected_list(v):
    if isinstance(v, dict):
        return list(v["tuple"])
    if isinstance(v, list):
        return list(v)
    return [v]


class Leg(object):
    kind = "hyp"
    name = "relations"
    budget = {"quick": (8, 2500), "thorough": (16, 40000)}

    def strategy(self):
        from hypothesis import strategies as st

        text = st.text(alphabet=st.characters(blacklist_categories=("Cs",)), max_size=8)
        key = st.one_of(st.sampled_from(["ID", "Name", "note", "k", "é", "a b", ""]), text)
        sval = st.one_of(st.sampled_from(["a", "b", "10", "9", "2.5", "x,y", "p;q", "=", "é", "", " ", "1e1", "\t", "%41"]), text)
        anyval = st.one_of(sval, st.lists(sval, max_size=3), st.lists(sval, min_size=1, max_size=2).map(lambda l: {"tuple": l}))
        items = st.lists(st.tuples(key, anyval).map(list), max_size=4, unique_by=lambda kv: kv[0])
        lmap = st.lists(st.tuples(key, st.lists(sval, max_size=3)).map(list), max_size=4, unique_by=lambda kv: kv[0])
        numval = st.sampled_from(["1", "2", "10", "9", "2.5", "-3", "1e1", "007", "a"])
        nmap = st.lists(st.tuples(st.sampled_from(["n", "m", "ID", "x"]), st.lists(st.one_of(numval, numval, sval), max_size=3)).map(list),
                        max_size=3, unique_by=lambda kv: kv[0])

        return st.one_of(
            st.fixed_dictionaries({"mode": st.just("wrap"), "items": items, "how": st.sampled_from(["feature", "mapping", "update"]),
                                   "from_db": st.booleans(), "base": st.sampled_from(["attrs", "attrs", "no-ninth-column", "empty-ninth-column"])}),
            st.fixed_dictionaries({"mode": st.just("view"), "items": lmap, "gtf": st.booleans(),
                                   "lib_call": st.sampled_from([None, None, "bed12:ID", "bed12:Name", "bed12:absent", "bed12:by-id"])}),
            st.fixed_dictionaries({"mode": st.just("json"), "items": lmap, "db": st.booleans()}),
            st.fixed_dictionaries({"mode": st.just("merge"), "a": nmap, "b": nmap, "numeric_sort": st.booleans(),
                                   "kinds": st.sampled_from(["dict", "attrs", "mixed"]), "arl": st.booleans()}),
            st.fixed_dictionaries({"mode": st.just("eq"), "items": lmap, "change": st.sampled_from(
                ["none", "seqid", "start", "score", "strand", "attr-value", "attr-order", "dialect", "extra", "id-only", "keep_order",
                 "mutate-start-after-hash", "mutate-attr-after-hash", "mutate-back-after-hash"])}),
        )

    def classify(self, case):
        m = case["mode"]
        labels = ["mode=" + m]

        def rich(items):
            for k, v in items:
                vs = _expected_list(v)
                if isinstance(v, str) or isinstance(v, dict) or not vs:
                    return True
                if any(ord(c) > 127 or c in ",;=%\t " for s in [k] + vs for c in s):
                    return True
            return False

        if m == "merge":
            da, db_ = dict(case["a"]), dict(case["b"])
            nt = any(k in db_ and sorted(da[k]) != sorted(db_[k]) for k in da)
            labels.append("arl=%s" % case["arl"])
        elif m == "eq":
            nt = case["change"] != "none"
        elif m == "view" and case.get("lib_call"):
            nt = True
            labels.append("view:lib_call=" + case["lib_call"])
        else:
            nt = rich(case["items"])
        return nt, labels

    def check(self, case, ctx):
        from gffutils import constants

        orig = constants.always_return_list
        try:
            return getattr(self, "_" + case["mode"])(case, ctx)
        finally:
            constants.always_return_list = orig

    # -- 1. wrapping
    def _wrap(self, case, ctx):
        import gffutils
        from gffutils.feature import feature_from_line

        base = case.get("base", "attrs")
        if case["from_db"]:
            db = gffutils.create_db(LINE + "\n", ":memory:", from_string=True)
            f = db["base"]
            base = "attrs"
        elif base == "no-ninth-column":
            f = feature_from_line("chr1\tsrc\tgene\t10\t20\t.\t+\t.")
        elif base == "empty-ninth-column":
            f = feature_from_line("chr1\tsrc\tgene\t10\t20\t.\t+\t.\t")
        else:
            f = feature_from_line(LINE)
        _set_all(f, case["items"], case["how"])
        for k, v in case["items"]:
            got = f.attributes[k]
            want = _expected_list(v)
            if not isinstance(got, (list, tuple)) or list(got) != want:
                return Failure("after setting %r = %r via %s, attributes[%r] is %r (expected the sequence %r)"
                               % (k, v, case["how"], k, got, want), sig={"kind": "wrap", "how": case["how"]})
            if f[k] is not f.attributes[k] and list(f[k]) != want:
                return Failure("Feature[%r] = %r differs from attributes[%r]" % (k, f[k], k), sig={"kind": "wrap"})
        if case["from_db"] and case["items"]:
            # the same values handed over in a plain dict to the Feature constructor, stored, and read back from the
            # database (also after update() on an existing one): sequences of strings again
            from gffutils.feature import Feature

            raw = dict((k, tuple(v["tuple"]) if isinstance(v, dict) else v) for k, v in case["items"])
            for route in ("create_db", "update"):
                made = Feature(seqid="c", source="s", featuretype="gene", start=1, end=2, attributes=dict(raw), id="row")
                if route == "create_db":
                    db2 = gffutils.create_db([made], ":memory:", id_spec=lambda x: "row")
                else:
                    db2 = gffutils.create_db(LINE + "\n", ":memory:", from_string=True)
                    db2.update([made], id_spec=lambda x: "row", make_backup=False)
                back = db2["row"]
                for k, v in case["items"]:
                    got = back.attributes[k]
                    want = _expected_list(v)
                    if isinstance(got, str) or not isinstance(got, (list, tuple)) or list(got) != want:
                        return Failure("a Feature constructed with attributes[%r] = %r, stored (%s) and read back has %r (expected the sequence %r)"
                                       % (k, raw[k], route, got, want), sig={"kind": "wrap", "how": "constructed+" + route})
        if base == "attrs":
            for k in ("ID", "Name"):
                if k not in dict(case["items"]) and list(f.attributes[k]) != {"ID": ["base"], "Name": ["n1", "n2"]}[k]:
                    return Failure("untouched attribute %r changed to %r" % (k, f.attributes[k]), sig={"kind": "wrap-other"})
        else:
            # another feature parsed from an attribute-less line afterwards is empty
            g = feature_from_line("chr1\tsrc\tgene\t10\t20\t.\t+\t." + ("\t" if base == "empty-ninth-column" else ""))
            if len(list(g.attributes.keys())) != 0:
                return Failure("a feature parsed from an attribute-less line carries attributes %r set on an earlier feature"
                               % dict(g.attributes.items()), sig={"kind": "shared-empty-attributes"})
        return None

    # -- 2. the switch is a view
    def _view(self, case, ctx):
        from gffutils import constants
        from gffutils.feature import feature_from_line

        line = (
            'chr1\tsrc\texon\t1\t5\t.\t-\t.\tgene_id "abc"; transcript_id "t1"; tag "x,y";'
            if case["gtf"] else "chr1\tsrc\texon\t1\t5\t.\t-\t.\tID=abc;Name=n1,n2;one=single"
        )
        f = feature_from_line(line, keep_order=True)
        for k, v in case["items"]:
            f.attributes[k] = list(v)
        constants.always_return_list = True
        as_list = dict((k, f.attributes[k]) for k in f.attributes.keys())
        printed = str(f)
        stored = copy.deepcopy(dict((k, list(v)) for k, v in as_list.items()))
        constants.always_return_list = False
        for k, v in stored.items():
            got = f.attributes[k]
            if len(v) == 1:
                if got != v[0]:
                    return Failure("always_return_list=False: attributes[%r] = %r, stored [%r]" % (k, got, v[0]), sig={"kind": "view"})
            elif list(got) != v:
                return Failure("always_return_list=False: attributes[%r] = %r, stored %r" % (k, got, v), sig={"kind": "view"})
        printed_off = str(f)
        if printed_off != printed:
            return Failure("always_return_list=False changes the printed line: %r vs %r" % (printed_off, printed),
                           sig={"kind": "view-print"})
        g = feature_from_line(line, keep_order=True)
        if str(g) != line:
            return Failure("always_return_list=False: a parsed line prints %r, input %r" % (str(g), line), sig={"kind": "view-print"})
        if case.get("lib_call"):
            # a library call made while the user has the switch off leaves it off (bed12 turns it on internally)
            import gffutils

            constants.always_return_list = True
            db = gffutils.create_db("chr1\tsrc\tmRNA\t1\t50\t.\t+\t.\tID=tx;Name=n1\n"
                                    "chr1\tsrc\texon\t1\t10\t.\t+\t.\tID=e1;Parent=tx\n"
                                    "chr1\tsrc\texon\t30\t50\t.\t+\t.\tID=e2;Parent=tx\n", ":memory:", from_string=True)
            tx = db["tx"]
            constants.always_return_list = False
            what = case["lib_call"].split(":")[1]
            bed = db.bed12("tx" if what == "by-id" else tx, name_field={"absent": "no_such_key", "by-id": "ID"}.get(what, what))
            want_name = {"ID": "tx", "Name": "n1", "absent": ".", "by-id": "tx"}[what]
            if bed.split("\t")[3] != want_name:
                return Failure("always_return_list=False: bed12(name_field for %s) names the line %r, expected %r"
                               % (what, bed.split("\t")[3], want_name), sig={"kind": "view-libcall-result"})
            if constants.always_return_list is not False:
                return Failure("db.bed12(%s) called with always_return_list=False left the switch at %r"
                               % (case["lib_call"], constants.always_return_list), sig={"kind": "view-switch-leaked"})
            if tx["ID"] != "tx" or f.attributes[list(stored)[0]] != (stored[list(stored)[0]][0] if len(stored[list(stored)[0]]) == 1 else stored[list(stored)[0]]):
                return Failure("after db.bed12(%s) single-item values are viewed as %r" % (case["lib_call"], tx["ID"]),
                               sig={"kind": "view-switch-leaked"})
        constants.always_return_list = True
        again = dict((k, list(f.attributes[k])) for k in f.attributes.keys())
        if again != stored or str(f) != printed:
            return Failure("toggling always_return_list changed the stored data: %r vs %r" % (again, stored), sig={"kind": "view-stored"})
        return None

    # -- 3. JSON identity
    def _json(self, case, ctx):
        import gffutils
        from gffutils import helpers
        from gffutils.attributes import Attributes
        from gffutils.feature import Feature

        a = Attributes()
        for k, v in case["items"]:
            a[k] = list(v)
        text = helpers._jsonify(a)
        if not isinstance(text, str):
            return Failure("_jsonify returned %r" % type(text), sig={"kind": "json"})
        b = helpers._unjsonify(text, isattributes=True)
        want = [(k, list(v)) for k, v in case["items"]]
        got = [(k, list(v)) for k, v in b.items()]
        if got != want:
            return Failure("JSON round trip changed the attributes: %r -> %r -> %r" % (want, text, got), sig={"kind": "json"})
        if not isinstance(b, Attributes):
            return Failure("_unjsonify(isattributes=True) returned %r" % type(b), sig={"kind": "json"})
        # decoding the same text again gives the stored content, whatever was done to an earlier decoding
        for k in list(b.keys()):
            b[k].append("edited in place")
        b["new key"] = ["x"]
        c = helpers._unjsonify(text, isattributes=True)
        if [(k, list(v)) for k, v in c.items()] != want:
            return Failure("decoding the same JSON text again gives %r after an earlier result was edited in place; stored %r"
                           % ([(k, list(v)) for k, v in c.items()], want), sig={"kind": "json-shared"})
        # the stored text does not depend on the always_return_list view
        from gffutils import constants

        constants.always_return_list = False
        try:
            text_off = helpers._jsonify(a)
            d_off = helpers._unjsonify(text, isattributes=True)
        finally:
            constants.always_return_list = True
        if text_off != text or [(k, list(v)) for k, v in d_off.items()] != want:
            return Failure("JSON form depends on always_return_list: %r vs %r" % (text_off, text), sig={"kind": "json-view"})
        if case["db"]:
            f = Feature(seqid="c", source="s", featuretype="gene", start=1, end=2, attributes=a, id="row")
            db = gffutils.create_db([f], ":memory:", id_spec=lambda x: "row")
            back = [(k, list(v)) for k, v in db["row"].attributes.items()]
            if back != want:
                return Failure("attributes read back from a database %r, written %r" % (back, want), sig={"kind": "json-db"})
            got1 = db["row"]
            for k in list(got1.attributes.keys()):
                got1.attributes[k].append("edited in place")
            back2 = [(k, list(v)) for k, v in db["row"].attributes.items()]
            if back2 != want:
                return Failure("a second look-up returns %r after the first result was edited in place; stored %r" % (back2, want),
                               sig={"kind": "json-shared"})
        return None

    # -- 4. merge_attributes
    def _merge(self, case, ctx):
        from gffutils import constants, helpers
        from gffutils.attributes import Attributes

        constants.always_return_list = case["arl"]
        da = dict((k, list(v)) for k, v in case["a"])
        db_ = dict((k, list(v)) for k, v in case["b"])
        mk = {"dict": (dict, dict), "attrs": (Attributes, Attributes), "mixed": (Attributes, dict)}[case["kinds"]]
        x = mk[0](copy.deepcopy(da))
        y = mk[1](copy.deepcopy(db_))
        res = helpers.merge_attributes(x, y, numeric_sort=case["numeric_sort"])
        constants.always_return_list = True
        ax = dict((k, list(v)) for k, v in x.items())
        ay = dict((k, list(v)) for k, v in y.items())
        if ax != da or ay != db_:
            return Failure("merge_attributes modified its arguments: %r / %r, before %r / %r" % (ax, ay, da, db_), sig={"kind": "merge-args"})
        if set(res.keys()) != set(da) | set(db_):
            return Failure("merge_attributes keys %r, expected %r" % (sorted(res.keys()), sorted(set(da) | set(db_))), sig={"kind": "merge-keys"})
        for k in res.keys():
            got = res[k]
            union = set(da.get(k, [])) | set(db_.get(k, []))
            if not isinstance(got, list) or len(got) != len(set(got)) or set(got) != union:
                return Failure("merge_attributes[%r] = %r, expected the duplicate-free union %r (always_return_list=%s, %s)"
                               % (k, got, sorted(union), case["arl"], case["kinds"]), sig={"kind": "merge-union", "arl": case["arl"]})
            numeric = None
            unspecified = False
            if case["numeric_sort"]:
                try:
                    numeric = [float(v) for v in got]
                    if any(n != n or n in (float("inf"), float("-inf")) for n in numeric):
                        numeric = None
                        unspecified = True  # 'nan' / 'inf' parse as floats but are not numbers: order not specified
                except ValueError:
                    numeric = None
            if unspecified:
                continue
            if numeric is not None:
                if numeric != sorted(numeric):
                    return Failure("merge_attributes[%r] = %r is not in numeric order" % (k, got), sig={"kind": "merge-numeric"})
            elif got != sorted(got):
                return Failure("merge_attributes[%r] = %r is not sorted" % (k, got), sig={"kind": "merge-sorted"})
        return None

    # -- 5. equality
    def _eq(self, case, ctx):
        from gffutils.feature import Feature

        def mk(**over):
            kw = dict(seqid="chr1", source="s", featuretype="gene", start=5, end=50, score=".", strand="+", frame=".",
                      attributes=dict((k, list(v)) for k, v in case["items"]), extra=[], id="x")
            kw.update(over)
            return Feature(**kw)

        f = mk()
        ch = case["change"]
        items = case["items"]
        if ch == "none":
            g = mk()
        elif ch == "seqid":
            g = mk(seqid="chr2")
        elif ch == "start":
            g = mk(start=6)
        elif ch == "score":
            g = mk(score="1")
        elif ch == "strand":
            g = mk(strand="-")
        elif ch == "extra":
            g = mk(extra=["e"])
        elif ch == "id-only":
            g = mk(id="another")
        elif ch == "keep_order":
            g = mk(keep_order=True)
        elif ch == "attr-value":
            g = mk(attributes=dict([(k, list(v)) for k, v in items] + [("added", ["1"])]))
        elif ch == "attr-order":
            g = mk(attributes=dict((k, list(v)) for k, v in reversed(items)))
        elif ch.startswith("mutate-"):
            # f has been hashed (it sits in a set) and is edited afterwards; g is built afresh with the
            # same edits.  Equality and hash are defined by the printed line *now*.
            pool = {f}
            h0 = hash(f)
            if ch == "mutate-start-after-hash":
                f.start = 7
                g = mk(start=7)
            elif ch == "mutate-attr-after-hash":
                f.attributes["edited"] = ["yes"]
                g = mk(attributes=dict([(k, list(v)) for k, v in items] + [("edited", ["yes"])]))
            else:
                f.end = 99
                f.end = 50
                g = mk()
                if hash(f) != h0:
                    return Failure("hash changed although the feature prints the same again", sig={"kind": "hash", "change": ch})
            del pool
        else:
            from gffutils import constants

            d = dict(constants.dialect)
            d["field separator"] = "; "
            g = mk(dialect=d)
        same_line = str(f) == str(g)
        if (f == g) != same_line:
            return Failure("f == g is %r but the printed lines are %s: %r / %r" % (f == g, "equal" if same_line else "different", str(f), str(g)),
                           sig={"kind": "eq", "change": ch})
        if (f != g) != (not same_line):
            return Failure("f != g is %r but the printed lines are %s" % (f != g, "equal" if same_line else "different"),
                           sig={"kind": "ne", "change": ch})
        if same_line and hash(f) != hash(g):
            return Failure("equal Features hash differently", sig={"kind": "hash", "change": ch})
        if same_line and len({f, g}) != 1:
            return Failure("equal Features are two set members", sig={"kind": "hash"})
        return None


LEGS = [Leg()]
