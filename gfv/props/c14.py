"""
C14  Directives are all kept in order; comments, blanks and FASTA are not features.

Oracle: a line-by-line reading of the generated document, straight from the statement:
directives = text after '##' of every '##' line before the first '##FASTA' / '>' line;
features = feature lines before it.
"""
from gfv.core import Failure

PROP = "C14"
RULE = (
    "documents interleaving 1-10 feature lines with 0-6 directive lines ('##...', '###', '##', look-alikes of ##FASTA), "
    "'#' comments and empty lines at generated positions, optionally ended by a '##FASTA' or '>' section containing "
    "sequence, '##'-looking and feature-looking lines; LF or CRLF, with or without final newline; imported from a path and "
    "from a string, checklines 0..n+2, dialect inferred or supplied. Non-trivial = a directive after the inspection "
    "window, or >= 2 directives, or a FASTA section. Distinct by hash."
)
ASSUMPTIONS = [
    "blank lines are empty (a whitespace-only line is not 'empty' and is outside the grammar)",
    "at least one feature line precedes any FASTA section (an empty input is rejected by design)",
    "directive text contains no line break and no characters that SQLite cannot store",
]


def expected(doc):
    directives, nfeat = [], 0
    for l in doc:
        t = l["t"]
        if t == "fasta" or t == "header":
            break
        if t == "d":
            directives.append(l["text"][2:])
        elif t == "f":
            nfeat += 1
    return directives, nfeat


def render(doc, eol, final):
    lines = [l["text"] for l in doc]
    s = eol.join(lines)
    if final:
        s += eol
    return s


class DocsLeg(object):
    kind = "hyp"
    name = "documents"
    budget = {"quick": (8, 800), "thorough": (16, 8000)}

    def strategy(self):
        from hypothesis import strategies as st

        dtext = st.one_of(
            st.sampled_from(["##gff-version 3", "##sequence-region chr1 1 1000", "###", "##", "## FASTA", "##FASTA2",
                             "##fasta", "##species http://x/y?id=1", "##gff-version 3", "##\tx", "## two  spaces "]),
            st.text(alphabet=st.characters(blacklist_categories=("Cs", "Cc"), blacklist_characters="  \x85"),
                    max_size=12).map(lambda s: "##" + s).filter(lambda s: s != "##FASTA" and s == s.rstrip("\r\n")),
        )
        ctext = st.one_of(
            st.sampled_from(["#", "# comment", "#!not-a-directive", "# ##inside", "#chr1\t.\tgene\t1\t2\t.\t+\t.\tID=c"]),
            st.text(alphabet=st.characters(blacklist_categories=("Cs", "Cc"), blacklist_characters="#  \x85"),
                    max_size=10).map(lambda s: "#" + s),
        )

        @st.composite
        def doc(draw):
            n = draw(st.integers(1, 10))
            items = []
            for i in range(n):
                attrs = "ID=f%d;Name=n%d" % (i, i) if draw(st.booleans()) else "ID=f%d" % i
                items.append({"t": "f", "text": "chr1\tsrc\tgene\t%d\t%d\t.\t+\t.\t%s" % (10 * i + 1, 10 * i + 5, attrs)})
            nd = draw(st.integers(0, 6))
            for _ in range(nd):
                pos = draw(st.integers(0, len(items)))
                items.insert(pos, {"t": "d", "text": draw(dtext)})
            for _ in range(draw(st.integers(0, 3))):
                pos = draw(st.integers(0, len(items)))
                items.insert(pos, {"t": "c", "text": draw(ctext)})
            for _ in range(draw(st.integers(0, 2))):
                pos = draw(st.integers(0, len(items)))
                items.insert(pos, {"t": "b", "text": ""})
            # the first feature must come before any FASTA section: FASTA goes at the end
            fasta = draw(st.sampled_from(["none", "none", "marker", "header"]))
            if fasta != "none":
                tail = []
                if fasta == "marker":
                    tail.append({"t": "fasta", "text": "##FASTA"})
                tail.append({"t": "header", "text": ">chr1 some description"})
                extra = draw(st.lists(st.sampled_from([
                    {"t": "x", "text": "ACGTNNNNACGT"},
                    {"t": "x", "text": "##late-directive"},
                    {"t": "x", "text": "chr9\tsrc\tgene\t1\t5\t.\t+\t.\tID=late"},
                    {"t": "x", "text": ">chr2"},
                    {"t": "x", "text": ""},
                    {"t": "x", "text": "#comment in fasta"},
                    {"t": "x", "text": "##FASTA"},
                ]), max_size=5))
                items += tail + extra
            return {
                "doc": items,
                "checklines": draw(st.integers(0, n + 2)),
                "eol": draw(st.sampled_from(["\n", "\n", "\r\n"])),
                "final": draw(st.integers(0, 4)) > 0,
                "supplied": draw(st.integers(0, 4)) == 0,
                "file_db": draw(st.booleans()),
            }

        return doc()

    def classify(self, case):
        dirs, nfeat = expected(case["doc"])
        seen = 0
        late = False
        for l in case["doc"]:
            if l["t"] in ("fasta", "header"):
                break
            if l["t"] == "f":
                seen += 1
            if l["t"] == "d" and seen > case["checklines"] + 1:
                late = True
        fasta = any(l["t"] in ("fasta", "header") for l in case["doc"])
        labels = []
        if late:
            labels.append("directive-after-window")
        if fasta:
            labels.append("fasta")
        if case["supplied"]:
            labels.append("supplied-dialect")
        if not dirs:
            labels.append("no-directive")
        return late or len(dirs) >= 2 or fasta, labels

    def check(self, case, ctx):
        import copy

        import gffutils
        from gffutils import constants
        from gffutils.iterators import DataIterator

        want_dirs, want_n = expected(case["doc"])
        text = render(case["doc"], case["eol"], case["final"])
        path = ctx.write("doc.gff", text)
        kw = {"checklines": case["checklines"]}
        if case["supplied"]:
            kw["dialect"] = copy.deepcopy(constants.dialect)

        def cmp(got, what):
            if list(got) != want_dirs:
                missing = [d for d in want_dirs if d not in got]
                sig = {"kind": "directives", "via": what.split("(")[0].strip()}
                return Failure("%s = %r, expected %r (missing %r)" % (what, list(got), want_dirs, missing[:3]), sig=sig)
            return None

        # another iterator over another document, used in between, does not change what this one reports
        it_first = DataIterator(path, **kw)
        n_first = len(list(it_first))
        other_doc = "##other-directive 1\n##other-directive 2\nchrO\tsrc\tgene\t1\t5\t.\t+\t.\tID=o1\n"
        it_other = DataIterator(ctx.write("other.gff", other_doc), **kw)
        list(it_other)
        if n_first != want_n or list(it_first.directives) != want_dirs:
            return Failure("DataIterator.directives = %r after another DataIterator was used; this document's are %r"
                           % (list(it_first.directives), want_dirs), sig={"kind": "directives-shared"})
        if list(it_other.directives) != ["other-directive 1", "other-directive 2"]:
            return Failure("second DataIterator reports directives %r" % list(it_other.directives), sig={"kind": "directives-shared"})
        for form in ("path", "string"):
            ikw = dict(kw)
            data = path
            if form == "string":
                ikw["from_string"] = True
                data = text
            it = DataIterator(data, **ikw)
            feats = list(it)
            if len(feats) != want_n:
                return Failure("DataIterator(%s) yielded %d features, the document has %d feature lines before any FASTA section"
                               % (form, len(feats), want_n), sig={"kind": "feature-count", "form": form})
            bad = cmp(it.directives, "DataIterator.directives (%s, after full iteration)" % form)
            if bad:
                return bad
            # a second full iteration does not duplicate them
            if form == "path":
                n2 = len(list(it))
                if n2 != want_n:
                    return Failure("second iteration yielded %d features" % n2, sig={"kind": "feature-count"})
                bad = cmp(it.directives, "DataIterator.directives (after second iteration)")
                if bad:
                    return bad
            dbfn = ctx.path("d.db") if (case["file_db"] and form == "path") else ":memory:"
            db = gffutils.create_db(data, dbfn, **ikw)
            nrows = db.count_features_of_type()
            if nrows != want_n:
                return Failure("create_db(%s) stored %d features, expected %d" % (form, nrows, want_n),
                               sig={"kind": "feature-count", "form": form})
            ids = [f.id for f in db.all_features()]
            if ids != ["f%d" % i for i in range(want_n)]:
                return Failure("create_db(%s) stored ids %r" % (form, ids), sig={"kind": "feature-ids"})
            bad = cmp(db.directives, "db.directives (%s)" % form)
            if bad:
                return bad
            if dbfn != ":memory:":
                db.conn.close()
                db2 = gffutils.FeatureDB(dbfn)
                bad = cmp(db2.directives, "db.directives (reopened)")
                if bad:
                    return bad
                # ... and are still all there after features were added later
                from gffutils.feature import feature_from_line

                db2.update([feature_from_line("chr1\tsrc\tgene\t900\t950\t.\t+\t.\tID=later")], make_backup=False)
                db2.conn.close()
                db3 = gffutils.FeatureDB(dbfn)
                bad = cmp(db3.directives, "db.directives (reopened after update())")
                if bad:
                    return bad
                # a later update from a file that has a directive of its own: the import's directives stay (first, in order)
                db3.update(ctx.write("upd.gff", "##update-directive 7\nchrU\tsrc\tgene\t3\t9\t.\t+\t.\tID=later2\n"), make_backup=False)
                db3.conn.close()
                db4 = gffutils.FeatureDB(dbfn)
                have = list(db4.directives)
                db4.conn.close()
                bad = cmp(have[:len(have) - 1] if have and have[-1] == "update-directive 7" else have,
                          "db.directives (reopened after an update() from a file with a directive of its own)")
                if bad:
                    return bad
        return None


LEGS = [DocsLeg()]
