"""
C20  Concurrent imports are independent and leave no temp files.

Schedule sampling under harness-forced overlap: all workers are released by a
multiprocessing.Barrier, and inside each worker gffutils.create's tempfile factory is
wrapped so that every worker waits (with a timeout) until all have created their
intermediate file before any proceeds - the window in which a shared name or shared
module state would collide.  When a configuration contains imports that are expected to
fail (duplicate ID), the module's open() is wrapped as well: the others wait, file written
and not yet read back, until those imports have failed, so that a failure that cleans up
more than its own file is seen.  Oracle: each output equals the solitary import of its input
(snapshot equality), the shared temp dir is empty afterwards, and concurrent readers see
the writer's snapshot.  Overlap is measured, never used as an oracle.
"""
import multiprocessing
import os
import shutil
import tempfile
import threading
import time

from gfv import dbsnap
from gfv.core import Failure
from gfv.props.c19 import make_annotation

PROP = "C20"
RULE = (
    "configurations of 2-40 simultaneously released importer processes (below and above the 16 cores), each assigned one of "
    "1-3 generated GFF3/GTF inputs (same or different; 60-400 lines), start offsets 0-20 ms, one shared TMPDIR, separate "
    "output files, followed by 2-32 concurrent readers of one finished file; input variants: gzip with a ##FASTA tail, GTF without "
    "exons, shallow GFF3, inference off, and inputs with a duplicate ID whose import is expected to fail while the others are held "
    "between writing and reading back their intermediate file. Every other solitary reference import is extended once through update() (its intermediate file must be gone as well). Every configuration has >= 2 processes "
    "(non-trivial); how many import pairs actually overlapped in time (monotonic-clock intervals) and how many workers met at "
    "the temp-file barrier is measured per run and reported under classes ('#...'); distinct by hash of the configuration."
)
ASSUMPTIONS = [
    "schedules are sampled, not enumerated: an interleaving-specific failure inside SQLite or the OS is out of reach",
    "inputs are given as paths (from_string input is materialised in a temp file by DataIterator and is about the input form, not an intermediate of the import)",
    "the clock is used only to measure overlap (non-triviality), never as a correctness signal",
]


class _TempfileProxy(object):
    """Stands in for the tempfile module inside gffutils.create for one worker."""

    def __init__(self, barrier, log):
        self._barrier = barrier
        self._log = log

    def NamedTemporaryFile(self, *a, **kw):
        f = tempfile.NamedTemporaryFile(*a, **kw)
        self._log.append(f.name)
        try:
            self._barrier.wait(timeout=3.0)
            self._log.append("met")
        except threading.BrokenBarrierError:
            self._log.append("barrier-broken")
        return f

    def __getattr__(self, name):
        return getattr(tempfile, name)


def _holding_open(log, barriers):
    """Stands in for the builtin open inside gffutils.create for one worker: before the intermediate file is read back,
    the worker waits until all have written theirs and until the imports that are expected to fail have failed."""

    def _open(file, mode="r", *a, **kw):
        if barriers is not None and file in log and "r" in mode and "held" not in log:
            log.append("held")
            for b in barriers:
                try:
                    b.wait(timeout=5.0)
                except threading.BrokenBarrierError:
                    pass
        return open(file, mode, *a, **kw)

    return _open


def _kwargs(spec):
    opt = spec.get("options", "default")
    if opt == "no-inference":
        return {"disable_infer_genes": True, "disable_infer_transcripts": True}
    if opt == "force_gff":
        return {"force_gff": True}
    if opt == "keep-suffix":
        return {"_keep_tempfiles": ".kept"}  # documented: keep the intermediate file, named with this suffix
    return {}


def _import_worker(idx, inp, out, tmpdir, start_barrier, tf_barrier, offset, queue, kwargs=None, expect_fail=False, tf_barrier2=None):
    try:
        os.environ["TMPDIR"] = tmpdir
        tempfile.tempdir = tmpdir
        import gffutils
        import gffutils.create as cr

        log = []
        cr.tempfile = _TempfileProxy(tf_barrier, log)
        cr.open = _holding_open(log, tf_barrier2)
        try:
            start_barrier.wait(timeout=20.0)
        except threading.BrokenBarrierError:
            pass
        time.sleep(offset / 1000.0)
        t0 = time.monotonic()
        if expect_fail:
            # an import that fails (duplicate ID): the others are held inside their temp-file window until it has failed
            for b in (tf_barrier,) + tuple((tf_barrier2 or ())[:1]):
                try:
                    b.wait(timeout=5.0)  # until the others have written their intermediate files
                except threading.BrokenBarrierError:
                    pass
            try:
                gffutils.create_db(inp, out, **(kwargs or {}))
                failed = None
            except Exception as e:  # noqa
                failed = e
            for b in tuple((tf_barrier2 or ())[1:]):
                try:
                    b.wait(timeout=5.0)
                except threading.BrokenBarrierError:
                    pass
            queue.put((idx, "ok" if failed is None else "error", "expected failure: %r" % (failed,), t0, time.monotonic(), log))
            return
        db = gffutils.create_db(inp, out, **(kwargs or {}))
        t1 = time.monotonic()
        snap = dbsnap.snapshot(db)
        db.conn.close()
        queue.put((idx, "ok", snap, t0, t1, log))
    except BaseException as e:  # noqa
        import traceback

        queue.put((idx, "error", "%r\n%s" % (e, traceback.format_exc()[-1500:]), 0, 0, []))


def _reader_worker(idx, dbfn, barrier, queue):
    try:
        import gffutils

        try:
            barrier.wait(timeout=20.0)
        except threading.BrokenBarrierError:
            pass
        db = gffutils.FeatureDB(dbfn)
        snap = dbsnap.snapshot(db)
        n = sum(1 for _ in db.all_features())
        kids = sum(len(list(db.children(f.id))) for f in db.features_of_type("gene"))
        db.conn.close()
        queue.put((idx, "ok", snap, n, kids))
    except BaseException as e:  # noqa
        queue.put((idx, "error", repr(e), 0, 0))


def _collect(procs, queue, n, timeout=120.0):
    out = {}
    deadline = time.monotonic() + timeout
    while len(out) < n and time.monotonic() < deadline:
        try:
            item = queue.get(timeout=0.5)
            out[item[0]] = item
        except Exception:  # noqa (queue.Empty)
            if not any(p.is_alive() for p in procs) and queue.empty():
                break
    for p in procs:
        p.join(timeout=5.0)
        if p.is_alive():
            p.terminate()
    return out


class ConfigLeg(object):
    kind = "hyp"
    name = "configurations"
    run_in_main = True
    budget = {"quick": (1, 40), "thorough": (1, 500)}

    def strategy(self):
        from hypothesis import strategies as st

        spec = st.fixed_dictionaries({
            "gtf": st.booleans(),
            "genes": st.lists(st.lists(st.integers(1, 6), min_size=1, max_size=3), min_size=6, max_size=30),
            "tag": st.sampled_from(["a", "b", "c"]),
        })

        @st.composite
        def case(draw):
            inputs = draw(st.lists(spec, min_size=1, max_size=3))
            n = draw(st.sampled_from([2, 4, 8, 16, 24, 40]))
            assign = [draw(st.integers(0, len(inputs) - 1)) for _ in range(n)]
            if draw(st.booleans()):
                assign = [assign[0]] * n  # all the same input
            offsets = [draw(st.sampled_from([0, 0, 0, 1, 5, 20])) for _ in range(n)]
            for sp in inputs:
                if sp["gtf"] and draw(st.integers(0, 3)) == 0:
                    sp["cds_only"] = True  # a GTF without exon lines: nothing to infer, still an intermediate file
                if sp["gtf"]:
                    sp["options"] = draw(st.sampled_from(["default", "default", "no-inference", "force_gff", "keep-suffix"]))
                elif draw(st.integers(0, 5)) == 0:
                    sp["options"] = "keep-suffix"
                elif draw(st.integers(0, 3)) == 0:
                    sp["shallow"] = draw(st.sampled_from(["genes-only", "two-level"]))  # GFF3 without grandchildren
                z = draw(st.integers(0, 9))
                if z == 0:
                    sp["gz_fasta"] = True  # gzip-compressed input that ends in a ##FASTA section
                elif z in (1, 2) and not sp["gtf"]:
                    sp["duplicate_id"] = True  # an import that is expected to fail (duplicate ID) next to the others
            if draw(st.integers(0, 3)) == 0 and not any(sp.get("duplicate_id") for sp in inputs):
                # one import in four configurations is expected to fail (duplicate ID) next to imports that must not notice
                gff = [i for i, sp in enumerate(inputs) if not sp["gtf"]]
                if not gff and len(inputs) < 3:
                    inputs.append({"gtf": False, "genes": [[2, 1]] * 6, "tag": "c"})
                    gff = [len(inputs) - 1]
                if gff and len(inputs) >= 2:
                    bad_i = gff[0]
                    inputs[bad_i]["duplicate_id"] = True
                    inputs[bad_i].pop("gz_fasta", None)
                    good = [i for i in range(len(inputs)) if not inputs[i].get("duplicate_id")]
                    assign[0] = bad_i
                    for k in range(1, n):
                        if assign[k] == bad_i and k % 2:
                            assign[k] = good[k % len(good)]
                    assign[1] = good[0]
            return {"inputs": inputs, "procs": n, "assign": assign, "offsets_ms": offsets,
                    "readers": draw(st.sampled_from([2, 4, 8, 16, 32])),
                    "same_basename": draw(st.booleans())}

        return case()

    def classify(self, case):
        # overlap is measured at run time (see '#...' counters); statically: more than one process
        labels = ["procs=%d" % case["procs"], "same-input" if len(set(case["assign"])) == 1 else "mixed-inputs"]
        kinds = set(case["inputs"][i]["gtf"] for i in case["assign"])
        labels.append("gtf+gff3" if len(kinds) == 2 else ("gtf" if True in kinds else "gff3"))
        if case.get("same_basename"):
            labels.append("same-output-basename")
        if any(case["inputs"][i].get("cds_only") for i in case["assign"]):
            labels.append("gtf-without-exons")
        fails = [bool(case["inputs"][i].get("duplicate_id")) for i in case["assign"]]
        if any(fails) and not all(fails):
            labels.append("a-failing-import-among-successful-ones")
        if any(case["inputs"][i].get("options") == "keep-suffix" for i in case["assign"]):
            labels.append("kept-intermediate-files")
        return case["procs"] >= 2, labels

    def check(self, case, ctx):
        import gffutils

        shared_tmp = os.path.join(ctx.tmp, "shared_tmp")
        outdir = os.path.join(ctx.tmp, "out")
        os.makedirs(shared_tmp)
        os.makedirs(outdir)
        # inputs and their solitary imports
        paths, solo = [], []
        old_tmp = tempfile.tempdir
        tempfile.tempdir = shared_tmp
        try:
            return self._check_inner(case, ctx, shared_tmp, outdir, paths, solo)
        finally:
            tempfile.tempdir = old_tmp

    def _check_inner(self, case, ctx, shared_tmp, outdir, paths, solo):
        import gffutils

        for i, spec in enumerate(case["inputs"]):
            p = os.path.join(outdir, "in%d.txt" % i)
            text = make_annotation(spec)
            if spec.get("shallow") == "genes-only":
                text = "\n".join(l for l in text.splitlines() if "\tgene\t" in l) + "\n"
            elif spec.get("shallow") == "two-level":
                text = "\n".join(l for l in text.splitlines() if "\tgene\t" in l or "\tmRNA\t" in l) + "\n"
            if spec.get("cds_only"):
                text = "\n".join(l for l in text.splitlines() if "\texon\t" not in l) + "\n"
            if spec.get("duplicate_id"):
                first = text.splitlines()[0]
                text = text + first + "\n"  # the first line again: same ID, default merge_strategy='error'
            if spec.get("gz_fasta"):
                import gzip

                p = p + ".gz"
                with gzip.open(p, "wb") as fh:
                    fh.write((text + "##FASTA\n>chr1\nACGTACGT\n").encode("utf-8"))
            else:
                with open(p, "w") as fh:
                    fh.write(text)
            paths.append(p)
            if spec.get("duplicate_id"):
                solo.append("fails")
                continue
            db = gffutils.create_db(p, os.path.join(outdir, "solo%d.db" % i), **_kwargs(spec))
            solo.append(dbsnap.snapshot(db))
            if spec.get("options") != "keep-suffix" and i % 2 == 0:
                # the finished database is extended once more through update(): its intermediate file goes the same way
                before_upd = set(os.listdir(shared_tmp))
                first = next(iter(db.all_features()))
                db.update([first], merge_strategy="create_unique", make_backup=False)
                left = sorted(set(os.listdir(shared_tmp)) - before_upd)
                if left:
                    return Failure("update() on a finished import left %r in the temp dir" % left[:3], sig={"kind": "temp-left-update"})
            db.conn.close()
            if spec.get("options") == "keep-suffix":
                kept = [x for x in os.listdir(shared_tmp) if x.endswith(".kept")]
                if len(kept) != 1:
                    return Failure("a solitary import with _keep_tempfiles='.kept' left %r" % sorted(os.listdir(shared_tmp)), sig={"kind": "temp-kept"})
                os.unlink(os.path.join(shared_tmp, kept[0]))
        if os.listdir(shared_tmp):
            return Failure("a solitary import left %r in the temp dir" % sorted(os.listdir(shared_tmp))[:3], sig={"kind": "temp-left"})
        leftovers = [n for n in os.listdir(ctx.tmp) if n not in ("shared_tmp", "out")]
        n = case["procs"]
        mp = multiprocessing.get_context("fork")
        start_barrier = mp.Barrier(n)
        # only imports that create an intermediate file meet at the temp-file barrier
        n_tf = sum(1 for k in range(n) if case["inputs"][case["assign"][k]].get("options") != "no-inference")
        tf_barrier = mp.Barrier(max(1, n_tf))
        any_fail = any(case["inputs"][case["assign"][k]].get("duplicate_id") for k in range(n))
        tf_barrier2 = (mp.Barrier(max(1, n_tf)), mp.Barrier(max(1, n_tf))) if any_fail else None
        queue = mp.Queue()
        procs = []
        outs = []
        for k in range(n):
            if case.get("same_basename"):
                os.makedirs(os.path.join(outdir, "run%d" % k))
                outs.append(os.path.join(outdir, "run%d" % k, "annotation.db"))  # same file name, different directories
            else:
                outs.append(os.path.join(outdir, "w%d.db" % k))
        for k in range(n):
            out = outs[k]
            p = mp.Process(target=_import_worker, args=(k, paths[case["assign"][k]], out, shared_tmp, start_barrier, tf_barrier,
                                                        case["offsets_ms"][k], queue, _kwargs(case["inputs"][case["assign"][k]]),
                                                        bool(case["inputs"][case["assign"][k]].get("duplicate_id")), tf_barrier2))
            p.daemon = False
            procs.append(p)
        for p in procs:
            p.start()
        res = _collect(procs, queue, n)
        if len(res) < n:
            return Failure("%d of %d importer processes did not report" % (n - len(res), n), sig={"kind": "worker-lost"})
        for k in range(n):
            item = res[k]
            want = solo[case["assign"][k]]
            if want == "fails":
                if item[1] == "ok":
                    return Failure("an import with a duplicate ID succeeded when run concurrently", sig={"kind": "import-should-fail"})
                continue
            if item[1] != "ok":
                return Failure("concurrent import %d of %d failed: %s" % (k, n, item[2]), sig={"kind": "import-raised"})
            if item[2] != want:
                return Failure("concurrent import %d of %d differs from the solitary import of the same input: %s"
                               % (k, n, dbsnap.diff(want, item[2])), sig={"kind": "differs-from-solitary"})
        left = sorted(os.listdir(shared_tmp))
        n_keep = sum(1 for k in range(n) if case["inputs"][case["assign"][k]].get("options") == "keep-suffix"
                     and solo[case["assign"][k]] != "fails")
        kept = [x for x in left if x.endswith(".kept")]
        left = [x for x in left if not x.endswith(".kept")]
        if left:
            return Failure("after %d concurrent imports the shared temp dir still holds %r" % (n, left[:5]), sig={"kind": "temp-left"})
        if len(kept) != n_keep:
            return Failure("%d concurrent imports were asked to keep their intermediate file (suffix '.kept'); %d such files exist: %r"
                           % (n_keep, len(kept), kept[:5]), sig={"kind": "temp-kept"})
        iv = [(res[k][3], res[k][4]) for k in range(n)]
        overlap = sum(1 for a in range(n) for b in range(a + 1, n) if iv[a][0] < iv[b][1] and iv[b][0] < iv[a][1])
        met = sum(1 for k in range(n) if "met" in res[k][5])
        ctx.count("importer processes", n)
        ctx.count("overlapping import pairs", overlap)
        ctx.count("workers that met at the temp-file barrier", met)
        ctx.count("configurations with overlap", 1 if overlap else 0)
        # the files on disk, reopened
        good = [k for k in range(n) if solo[case["assign"][k]] != "fails"]
        if not good:
            return None
        for k in (good[0], good[-1]):
            db = gffutils.FeatureDB(outs[k])
            s = dbsnap.snapshot(db)
            db.conn.close()
            if s != solo[case["assign"][k]]:
                return Failure("output file %d reopened differs from the solitary import" % k, sig={"kind": "differs-from-solitary"})
        # concurrent readers of one finished file
        m = case["readers"]
        rb = mp.Barrier(m)
        rq = mp.Queue()
        target = outs[good[0]]
        readers = [mp.Process(target=_reader_worker, args=(j, target, rb, rq)) for j in range(m)]
        for p in readers:
            p.start()
        rres = _collect(readers, rq, m)
        if len(rres) < m:
            return Failure("%d of %d reader processes did not report" % (m - len(rres), m), sig={"kind": "worker-lost"})
        want = solo[case["assign"][good[0]]]
        nfeat = len(want["features"])
        for j in range(m):
            item = rres[j]
            if item[1] != "ok":
                return Failure("concurrent reader %d of %d failed: %s" % (j, m, item[2]), sig={"kind": "reader-raised"})
            if item[2] != want or item[3] != nfeat:
                return Failure("concurrent reader %d of %d saw different content (%d features, expected %d)" % (j, m, item[3], nfeat),
                               sig={"kind": "reader-differs"})
        ctx.count("reader processes", m)
        return None


LEGS = [ConfigLeg()]
