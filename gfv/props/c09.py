"""
C09  Dialect inference recovers the dialect the input was written in.

(a) consistent: every line exhibits the file dialect -> the reported dialect is exactly
    that dialect (all entries + first-seen key order), through DataIterator, create_db,
    a reopened FeatureDB and per-line helpers.infer_dialect; fmt routes the importer.
(b) mixture: lines inside the window differ in one dialect entry -> the winner of the
    attribute-count-weighted vote, ties to the value seen first (DESIGN A.2), asserted
    only when windows of checklines and checklines+1 lines give the same winner.
(c) supplied: a dialect passed in is reported verbatim and drives parsing.
"""
from gfv import textmodel as tm
from gfv.core import Failure

PROP = "C09"
RULE = (
    "(a) files of 1-8 lines in one of the 36 grammar dialects in which every line renders >= 2 attribute parts with a "
    "non-empty value (and a repeated key when the dialect repeats keys), any checklines in 0..n+2, optionally with one attribute-less line (8 columns or an empty ninth) at a generated position, and the stored features handed to DataIterator again in another order (reversed / rotated / odd-first); (b) windows of 2-6 "
    "lines whose dialects differ in one entry (separator, trailing semicolon, repeated keys, key/value style) with "
    "generated attribute counts as weights, including exact ties; (c) a supplied dialect over files whose window alone "
    "would infer something else. Non-trivial = dialect differs from the default in >= 2 entries, or a mixture with "
    "unequal weights, or a supplied dialect that differs from what the window infers. Distinct by hash."
)
ASSUMPTIONS = [
    "separator/repeated-keys entries are only observable on lines with >= 2 rendered parts / a key rendered twice (statement: 'attribute counts >= 2 per line')",
    "a mixture whose winner differs between windows of checklines and checklines+1 lines is not asserted (the statement does not fix that off-by-one)",
    "value domain restrictions of DESIGN section 3",
]

ENTRIES = ["leading semicolon", "trailing semicolon", "quoted GFF2 values", "field separator", "keyval separator",
           "multival separator", "fmt", "repeated keys"]


def _file_text(recs_d):
    return "\n".join(tm.render_line(r, d) for r, d in recs_d) + "\n"


def _cmp_dialect(got, want, what):
    if not isinstance(got, dict):
        return Failure("%s is %r" % (what, got), sig={"kind": "dialect-type"})
    for k in ENTRIES:
        if got.get(k) != want[k]:
            return Failure("%s[%r] = %r, expected %r (full: %r)" % (what, k, got.get(k), want[k], got),
                           sig={"kind": "dialect-entry", "entry": k})
    if "order" in want and list(got.get("order") or []) != list(want["order"]):
        return Failure("%s['order'] = %r, expected first-seen key order %r" % (what, got.get("order"), want["order"]),
                       sig={"kind": "dialect-entry", "entry": "order"})
    return None


def _exhibiting_record(draw, S, style, repeated, idx, gtf_ids=True):
    st = S.st
    r = draw(S.record(style, min_n=2, max_n=4, allow_flags=False, with_extras=False, allow_dot=False))
    r["attrs"] = [a for a in r["attrs"] if a[0] not in ("ID", "gene_id", "transcript_id", "Parent")]
    lead = []
    if style == "gtf":
        if gtf_ids:
            lead = [["gene_id", ["G1"]], ["transcript_id", ["G1.t%d" % (idx % 2)]]]
            r["cols"][2] = "exon"
    else:
        lead = [["ID", ["f%d" % idx]]]
        if idx > 0:
            lead.append(["Parent", ["f0"]])
    r["attrs"] = lead + r["attrs"]
    while len(r["attrs"]) < 2:
        r["attrs"].append(["k%d" % len(r["attrs"]), [draw(S.value_for(style))]])
    if repeated:
        # a key rendered twice
        tgt = r["attrs"][-1]
        if tgt[0] in ("ID", "gene_id", "transcript_id"):
            r["attrs"].append(["multi", draw(st.lists(S.value_for(style), min_size=2, max_size=3))])
        elif len(tgt[1]) < 2:
            tgt[1] = tgt[1] + draw(st.lists(S.value_for(style), min_size=1, max_size=2))
    return r


class ConsistentLeg(object):
    kind = "hyp"
    name = "consistent"
    budget = {"quick": (8, 300), "thorough": (16, 5000)}

    def strategy(self):
        S = tm.strategies()
        st = S.st

        @st.composite
        def case(draw):
            d = draw(S.dialect)
            n = draw(st.integers(1, 8))
            recs = [_exhibiting_record(draw, S, d["style"], d["repeated"], i) for i in range(n)]
            return {"dialect": d, "records": recs, "checklines": draw(st.integers(0, n + 2)),
                    "file_db": draw(st.booleans()),
                    "bare_at": draw(st.one_of(st.none(), st.integers(0, n))), "bare_form": draw(st.sampled_from(["8 columns", "empty ninth column"])),
                    "handed_on": draw(st.sampled_from(["reversed", "rotated", "odd-first"]))}

        return case()

    def classify(self, case):
        d = case["dialect"]
        nd = sum([d["style"] != "gff3", d["sep"] != ";", d["trailing"], d["repeated"]])
        return nd >= 2, ["style=" + d["style"], "sep=%r" % d["sep"], "n>window" if len(case["records"]) > case["checklines"] + 1 else "n<=window"]

    def check(self, case, ctx):
        import gffutils
        from gffutils import helpers
        from gffutils.iterators import DataIterator

        d, recs, cl = case["dialect"], case["records"], case["checklines"]
        n = len(recs)
        text = _file_text([(r, d) for r in recs])
        path = ctx.write("in.txt", text)
        want = tm.lib_dialect(d)
        order = []
        for r in recs[: cl + 1]:
            for k, _ in r["attrs"]:
                if k not in order:
                    order.append(k)
        want_o = dict(want, order=order)
        # per line
        for r in recs:
            col9 = tm.render_attrs(r["attrs"], d)
            got = helpers.infer_dialect(col9)
            bad = _cmp_dialect(got, dict(want, order=[k for k, vs in r["attrs"] for _ in (vs if (d["repeated"] and len(vs) > 1) else [0])]),
                               "helpers.infer_dialect(%r)" % col9)
            if bad:
                return bad
        it = DataIterator(path, checklines=cl)
        bad = _cmp_dialect(it.dialect, want_o, "DataIterator(checklines=%d).dialect" % cl)
        if bad:
            return bad
        if n % 3 == 0:
            import gzip

            gz = ctx.path("in.txt.gz")
            with gzip.open(gz, "wb") as fh:
                fh.write(text.replace("\n", "\r\n").encode("utf-8"))
            bad = _cmp_dialect(DataIterator(gz, checklines=cl).dialect, want_o, "DataIterator(<gzip copy with CRLF line ends>).dialect")
            if bad:
                return bad
        if case.get("bare_at") is not None:
            # a line without attributes inside (or after) the window has no say: the other lines decide every entry, and the
            # order is that of the keys seen on the window's other lines
            bare = "chrB\tsrc\tregion\t1\t2\t.\t+\t." + ("\t" if case["bare_form"] == "empty ninth column" else "")
            lines2 = [tm.render_line(r, d) for r in recs]
            lines2.insert(case["bare_at"], bare)
            recs2 = list(recs)
            recs2.insert(case["bare_at"], None)
            order2 = []
            for r in recs2[: cl + 1]:
                for k, _ in (r["attrs"] if r is not None else []):
                    if k not in order2:
                        order2.append(k)
            if order2:  # a window holding nothing but the bare line exhibits no dialect
                path2 = ctx.write("in_bare.txt", "\n".join(lines2) + "\n")
                bad = _cmp_dialect(DataIterator(path2, checklines=cl).dialect, dict(want, order=order2),
                                   "DataIterator(<file with an attribute-less line (%s) at position %d>, checklines=%d).dialect"
                                   % (case["bare_form"], case["bare_at"], cl))
                if bad:
                    return bad
        dbfn = ctx.path("o.db") if case["file_db"] else ":memory:"
        db = gffutils.create_db(path, dbfn, checklines=cl, keep_order=True)
        bad = _cmp_dialect(db.dialect, want_o, "create_db(checklines=%d).dialect" % cl)
        if bad:
            return bad
        if case["file_db"]:
            db.conn.close()
            db = gffutils.FeatureDB(dbfn, keep_order=True)
            bad = _cmp_dialect(db.dialect, want_o, "reopened FeatureDB.dialect")
            if bad:
                return bad
            if d["style"] != "gtf" and n % 2 == 1:
                # features added later from text written in another dialect do not change what the database reports
                other = "chr1\tsrc\tgene\t1\t2\t.\t+\t.\tID=zz_later ; extra=1 ; more=2;" if d["sep"] != " ; " else \
                    "chr1\tsrc\tgene\t1\t2\t.\t+\t.\tID=zz_later;extra=1;more=2"
                db.update(ctx.write("upd.txt", other + "\n"), make_backup=False)
                db.conn.close()
                db = gffutils.FeatureDB(dbfn, keep_order=True)
                bad = _cmp_dialect(db.dialect, want_o, "FeatureDB.dialect reopened after update() with differently written text")
                if bad:
                    return bad
                db.conn.close()
                db = gffutils.FeatureDB(dbfn, keep_order=True)  # and opening it did not change what the next opening sees
                bad = _cmp_dialect(db.dialect, want_o, "FeatureDB.dialect reopened a second time after update()")
                if bad:
                    return bad
                db.delete("zz_later", make_backup=False)
        # routing
        feats = list(db.all_features())
        if d["style"] == "gtf":
            derived = [f for f in feats if f.source == "gffutils_derived"]
            types = sorted(set(f.featuretype for f in derived))
            if types != ["gene", "transcript"]:
                return Failure("GTF input: derived feature types %r, expected gene and transcript" % types,
                               sig={"kind": "routing"})
            ids = [f.id for f in feats[:n]]
            if ids != ["exon_%d" % (i + 1) for i in range(n)]:
                return Failure("GTF input: exon ids %r" % ids, sig={"kind": "routing"})
        else:
            if len(feats) != n:
                return Failure("GFF input: %d rows for %d lines" % (len(feats), n), sig={"kind": "routing"})
            if [f.id for f in feats] != ["f%d" % i for i in range(n)]:
                return Failure("GFF input: ids %r" % [f.id for f in feats], sig={"kind": "routing"})
            kids = sorted(f.id for f in db.children("f0", level=1))
            if kids != sorted("f%d" % i for i in range(1, n)):
                return Failure("GFF input: children of f0 %r" % kids, sig={"kind": "routing"})
        # features fetched from the database and handed on in another order: the first-seen key order is that of the sequence
        # handed over, not the one the database was written with
        if case.get("handed_on") and n >= 2:
            idx = list(range(n))
            idx = {"reversed": idx[::-1], "rotated": idx[1:] + idx[:1], "odd-first": idx[1::2] + idx[0::2]}[case["handed_on"]]
            seq = [feats[i] for i in idx]
            order3 = []
            for i in idx[: cl + 1]:
                for k, _ in recs[i]["attrs"]:
                    if k not in order3:
                        order3.append(k)
            got3 = DataIterator(seq, checklines=cl).dialect
            if list(got3.get("order") or []) != order3:
                return Failure("DataIterator(<features of the database, %s>, checklines=%d).dialect['order'] = %r, expected the first-seen key order %r"
                               % (case["handed_on"], cl, got3.get("order"), order3), sig={"kind": "dialect-entry", "entry": "order-handed-on"})
        # force_gff only selects the importer: the reported dialect is still the file's, and lines print as written
        if d["style"] == "gtf" and n % 2 == 0:
            dbf = gffutils.create_db(path, ":memory:", checklines=cl, keep_order=True, force_gff=True)
            bad = _cmp_dialect(dbf.dialect, want_o, "create_db(force_gff=True).dialect")
            if bad:
                return bad
            ff = list(dbf.all_features())
            if len(ff) != n or any(f.source == "gffutils_derived" for f in ff):
                return Failure("force_gff=True: %d rows for %d lines" % (len(ff), n), sig={"kind": "routing"})
            for f, r in zip(ff, recs):
                if tm.line_conditions(r, d, want_o)[1] and str(f) != tm.render_line(r, d):
                    return Failure("force_gff=True: line prints %r, input %r" % (str(f), tm.render_line(r, d)), sig={"kind": "bytes"})
        # and every line comes back byte for byte (all lines exhibit the dialect);
        # keys first seen after the window must sort after the window's keys
        lines = [tm.render_line(r, d) for r in recs]
        for f, r, line in zip(feats[:n], recs, lines):
            if tm.line_conditions(r, d, want_o)[1] and str(f) != line:
                return Failure("line prints %r, input %r" % (str(f), line), sig={"kind": "bytes"})
        return None


VARY = ["sep", "trailing", "repeated", "style"]


class MixtureLeg(object):
    kind = "hyp"
    name = "mixture"
    budget = {"quick": (8, 500), "thorough": (16, 8000)}

    def strategy(self):
        S = tm.strategies()
        st = S.st

        @st.composite
        def case(draw):
            base = draw(S.dialect)
            which = draw(st.sampled_from(VARY))
            if which == "sep":
                alt = dict(base, sep=draw(st.sampled_from([s for s in tm.SEPS if s != base["sep"]])))
            elif which == "trailing":
                alt = dict(base, trailing=not base["trailing"])
            elif which == "repeated":
                alt = dict(base, repeated=not base["repeated"])
            else:
                alt = dict(base, style=draw(st.sampled_from([s for s in tm.STYLES if s != base["style"]])))
            n = draw(st.integers(2, 6))
            lines = []
            for i in range(n):
                use_alt = draw(st.booleans())
                d = alt if use_alt else base
                nattr = draw(st.integers(2, 5))
                r = draw(S.record(d["style"], min_n=nattr, max_n=nattr, allow_flags=False, with_extras=False,
                                  keys=st.sampled_from(["a", "b", "c", "d", "e", "f", "g", "Note"])))
                r["attrs"] = [a for a in r["attrs"] if a[0] not in ("ID", "gene_id", "transcript_id", "Parent")]
                while len(r["attrs"]) < 2:
                    r["attrs"].append(["z%d" % len(r["attrs"]), [draw(S.value_for(d["style"]))]])
                if d["repeated"] and draw(st.integers(0, 3)) > 0:
                    tgt = r["attrs"][-1]
                    if len(tgt[1]) < 2:
                        tgt[1] = tgt[1] + [draw(S.value_for(d["style"]))]
                if (not d["repeated"]) and which == "repeated":
                    # make the comma-list convention visible too
                    pass
                lines.append({"rec": r, "alt": use_alt})
            return {"base": base, "alt": alt, "which": which, "lines": lines,
                    "checklines": draw(st.integers(0, n + 1))}

        return case()

    def _pairs(self, case):
        return [(l["rec"], case["alt"] if l["alt"] else case["base"]) for l in case["lines"]]

    def classify(self, case):
        pairs = self._pairs(case)
        w = pairs[: case["checklines"] + 1]
        wa = sum(len(tm.attrs_dict(r)) for r, d in w if d is case["alt"])
        wb = sum(len(tm.attrs_dict(r)) for r, d in w if d is case["base"])
        labels = ["vary=" + case["which"]]
        if wa and wb:
            labels.append("tie" if wa == wb else "unequal")
        else:
            labels.append("one-sided-window")
        return bool(wa and wb and wa != wb), labels

    def check(self, case, ctx):
        from gffutils.iterators import DataIterator
        import gffutils

        pairs = self._pairs(case)
        cl = case["checklines"]
        chosen, stable = tm.window_vote(pairs, cl)
        if not stable:
            ctx.count("mixtures not asserted (windows disagree)")
            return None
        ctx.count("mixtures asserted")
        path = ctx.write("mix.txt", _file_text(pairs))
        it = DataIterator(path, checklines=cl)
        bad = _cmp_dialect(it.dialect, chosen, "DataIterator(checklines=%d).dialect on a mixture" % cl)
        if bad:
            bad.sig["vary"] = case["which"]
            return bad
        # the same through a generator of Features (peek over objects instead of text)
        from gffutils.feature import feature_from_line

        feats = (feature_from_line(tm.render_line(r, d)) for r, d in pairs)
        it2 = DataIterator(feats, checklines=cl)
        bad = _cmp_dialect(it2.dialect, chosen, "DataIterator(<generator>, checklines=%d).dialect" % cl)
        if bad:
            return bad
        return None


class SuppliedLeg(object):
    kind = "hyp"
    name = "supplied"
    budget = {"quick": (8, 250), "thorough": (16, 4000)}

    def strategy(self):
        S = tm.strategies()
        st = S.st

        @st.composite
        def case(draw):
            d = draw(S.dialect)
            n = draw(st.integers(1, 6))
            recs = []
            for i in range(n):
                # the first lines deliberately hide the dialect: single attribute, single value
                hide = i < 2 and draw(st.booleans())
                r = draw(S.record(d["style"], min_n=1 if hide else 2, max_n=1 if hide else 4, allow_flags=not hide,
                                  with_extras=False, max_vals=1 if hide else 3))
                r["attrs"] = [a for a in r["attrs"] if a[0] not in ("ID", "gene_id", "transcript_id", "Parent")]
                if not r["attrs"] or not r["attrs"][0][1]:
                    r["attrs"] = [["lead", [draw(S.value_for(d["style"]))]]] + r["attrs"]
                recs.append(r)
            order = draw(st.lists(st.sampled_from(["lead", "Name", "Note", "k1", "zz"]), unique=True, max_size=4))
            return {"dialect": d, "records": recs, "checklines": draw(st.integers(0, 3)), "order": order}

        return case()

    def classify(self, case):
        d = case["dialect"]
        pairs = [(r, d) for r in case["records"]]
        chosen, _ = tm.window_vote(pairs, case["checklines"])
        differs = any(chosen[k] != tm.lib_dialect(d)[k] for k in ENTRIES)
        return differs, ["window-would-infer-differently"] if differs else ["window-agrees"]

    def check(self, case, ctx):
        import copy

        import gffutils
        from gffutils.iterators import DataIterator

        d, recs = case["dialect"], case["records"]
        D = dict(tm.lib_dialect(d), order=list(case["order"]))
        path = ctx.write("in.txt", _file_text([(r, d) for r in recs]))
        it = DataIterator(path, checklines=case["checklines"], dialect=copy.deepcopy(D))
        if it.dialect != D:
            return Failure("DataIterator(dialect=D).dialect = %r, supplied %r" % (it.dialect, D), sig={"kind": "supplied-changed"})
        feats = list(it)
        if len(feats) != len(recs):
            return Failure("%d features for %d lines" % (len(feats), len(recs)), sig={"kind": "count"})
        for f, r in zip(feats, recs):
            have = dict((k, list(v)) for k, v in f.attributes.items())
            want = tm.attrs_dict(r)
            if have != want or list(have) != list(want):
                return Failure("with the file's dialect supplied, line %r parsed to %r, expected %r"
                               % (tm.render_line(r, d), have, want), sig={"kind": "supplied-parse"})
            if f.dialect != D:
                return Failure("feature.dialect %r, supplied %r" % (f.dialect, D), sig={"kind": "supplied-changed"})
        kw = {}
        if d["style"] == "gtf":
            kw = dict(disable_infer_genes=True, disable_infer_transcripts=True)
        db = gffutils.create_db(path, ":memory:", checklines=case["checklines"], dialect=copy.deepcopy(D), **kw)
        if db.dialect != D:
            return Failure("create_db(dialect=D).dialect = %r, supplied %r" % (db.dialect, D), sig={"kind": "supplied-changed"})
        for f, r in zip(db.all_features(), recs):
            have = dict((k, list(v)) for k, v in f.attributes.items())
            if have != tm.attrs_dict(r):
                return Failure("create_db with supplied dialect stored %r for %r" % (have, tm.attrs_dict(r)),
                               sig={"kind": "supplied-parse"})
        return None


LEGS = [ConsistentLeg(), MixtureLeg(), SuppliedLeg()]
