"""
C03  GTF import infers exact gene/transcript extents and the three-level hierarchy.

Oracle: computed from the generated gene/transcript/sub-feature structure (DESIGN C03):
derived extents = min start .. max end over exons; children/parents from the ids the
lines carry; disable flags remove exactly the derived features of that kind; explicit
gene/transcript lines stay the single feature under their id and are never their own
relative.
"""
from gfv import textmodel as tm
from gfv.core import Failure

PROP = "C03"
RULE = (
    "GTF files with 1-3 genes (own seqid/strand), 1-3 transcripts each, 0-4 exons and 0-3 CDS/other sub-features per "
    "transcript with random coordinates (non-exon features may extend beyond the exons), optional explicit gene / transcript "
    "lines, lines in a generated permutation, any GTF dialect, all four disable_infer_* combinations, and (labelled share) "
    "custom transcript/gene keys and subfeature type with the matching dict id_spec; a labelled share of cases delivers the last "
    "gene, or one transcript's exons (the only exon-bearing transcript of its gene, or a further transcript of a gene that is derived already, its exons inside the gene's extent), later through update(), optionally preceded by an update with a constructor-built "
    "(default-dialect) Feature and a reopen of the file; genes may have exons without a transcript key, and non-exon lines may be "
    "unstranded. Non-trivial = a gene with >= 2 "
    "transcripts, or shuffled lines, or an explicit line, or an exon-less transcript. Distinct by hash."
)
ASSUMPTIONS = [
    "every line carries the gene key, and the transcript key unless it is an exon of the gene that belongs to no transcript (then the key is "
    "absent, never empty); a transcript belongs to one gene and its exon lines share seqid and strand (other lines may be unstranded)",
    "exon coordinates are numeric; gene/transcript ids are distinct from each other and from generated '<featuretype>_<n>' names",
    "children(gene, level=2) may additionally contain the gene's stored transcripts (the statement does not exclude them)",
]


def build(case):
    """-> (records in file order, model)"""
    tk, gk, sub = case["keys"]
    recs = []
    model = {"genes": {}, "tx": {}, "lines": []}
    for g in case["genes"]:
        gm = {"id": g["id"], "seqid": g["seqid"], "strand": g["strand"], "tx": [], "explicit": g["explicit"], "exons": []}
        model["genes"][g["id"]] = gm
        if g["explicit"]:
            recs.append({"cols": [g["seqid"], "file", "gene", str(g["gstart"]), str(g["gend"]), ".", g["strand"], "."],
                         "attrs": [[gk, [g["id"]]], ["gname", ["n " + g["id"]]]], "extras": [], "kind": "gene", "gene": g["id"], "tx": None})
        for t in g["transcripts"]:
            tm_ = {"id": t["id"], "gene": g["id"], "explicit": t["explicit"], "exons": [], "subs": []}
            model["tx"][t["id"]] = tm_
            gm["tx"].append(t["id"])
            if t["explicit"]:
                recs.append({"cols": [g["seqid"], "file", "transcript", str(t["tstart"]), str(t["tend"]), ".", g["strand"], "."],
                             "attrs": [[gk, [g["id"]]], [tk, [t["id"]]]], "extras": [], "kind": "transcript", "gene": g["id"], "tx": t["id"]})
            for s in t["subs"]:
                ft = sub if s["ft"] == "EXON" else s["ft"]
                # a line that is not of the subfeature type may be unstranded: the derived features follow the exons
                strand_ = "." if (s.get("dot_strand") and s["ft"] != "EXON") else g["strand"]
                r = {"cols": [g["seqid"], "src", ft, str(s["start"]), str(s["end"]), ".", strand_, s.get("frame", ".")],
                     "attrs": [[gk, [g["id"]]], [tk, [t["id"]]]] + ([["note", [s["note"]]]] if s.get("note") else []),
                     "extras": [], "kind": "sub", "gene": g["id"], "tx": t["id"]}
                recs.append(r)
                if s["ft"] == "EXON":
                    tm_["exons"].append((s["start"], s["end"]))
                    gm["exons"].append((s["start"], s["end"]))
        for o in g.get("orphans", []):
            # an exon that belongs to the gene but to no transcript (no transcript key on the line)
            recs.append({"cols": [g["seqid"], "src", sub, str(o["start"]), str(o["end"]), ".", g["strand"], "."],
                         "attrs": [[gk, [g["id"]]], ["orphan", ["no transcript"]]], "extras": [], "kind": "sub", "gene": g["id"], "tx": None})
            gm["exons"].append((o["start"], o["end"]))
    recs = [recs[i] for i in case["order"]]
    return recs, model


def nlines(genes):
    n = 0
    for g in genes:
        n += 1 if g["explicit"] else 0
        n += len(g.get("orphans", []))
        for t in g["transcripts"]:
            n += (1 if t["explicit"] else 0) + len(t["subs"])
    return n


class GtfLeg(object):
    kind = "hyp"
    name = "gtf"
    budget = {"quick": (8, 600), "thorough": (16, 6000)}

    def strategy(self):
        S = tm.strategies()
        st = S.st

        @st.composite
        def case(draw):
            custom = draw(st.integers(0, 4)) == 0
            keys = ["tid", "gid", "block"] if custom else ["transcript_id", "gene_id", "exon"]
            ng = draw(st.integers(1, 3))
            genes = []
            for gi in range(ng):
                gid = draw(st.sampled_from(["G", "gene", "ENSG0", "g.x", "Gé"])) + str(gi)
                g = {"id": gid, "seqid": draw(st.sampled_from(["chr1", "chr2", "2L"])), "strand": draw(st.sampled_from(["+", "-"])),
                     "explicit": draw(st.integers(0, 3)) == 0, "transcripts": []}
                g["gstart"] = draw(st.integers(1, 5000))
                g["gend"] = g["gstart"] + draw(st.integers(0, 9000))
                nt = draw(st.integers(1, 3))
                for ti in range(nt):
                    t = {"id": "%s.t%d" % (gid, ti), "explicit": draw(st.integers(0, 3)) == 0, "subs": []}
                    t["tstart"] = draw(st.integers(1, 5000))
                    t["tend"] = t["tstart"] + draw(st.integers(0, 9000))
                    ne = draw(st.sampled_from([0, 1, 1, 2, 3, 4]))
                    for _ in range(ne):
                        a = draw(st.integers(1, 10000))
                        t["subs"].append({"ft": "EXON", "start": a, "end": a + draw(st.integers(0, 800))})
                    for _ in range(draw(st.integers(0, 3))):
                        a = draw(st.integers(1, 12000))
                        t["subs"].append({"ft": draw(st.sampled_from(["CDS", "start_codon", "UTR", "exon" if custom else "block"])),
                                          "start": a, "end": a + draw(st.integers(0, 900)),
                                          "frame": draw(st.sampled_from([".", "0", "1"])),
                                          "note": draw(st.sampled_from(["", "x y"])),
                                          "dot_strand": draw(st.integers(0, 3)) == 0})
                    if not t["subs"] and not t["explicit"]:
                        t["subs"].append({"ft": "CDS", "start": 5, "end": 9})
                    g["transcripts"].append(t)
                if draw(st.integers(0, 4)) == 0 and any(s_["ft"] == "EXON" for t_ in g["transcripts"] for s_ in t_["subs"]):
                    g["orphans"] = []
                    for _ in range(draw(st.integers(1, 2))):
                        a = draw(st.integers(1, 14000))
                        g["orphans"].append({"start": a, "end": a + draw(st.integers(0, 500))})
                genes.append(g)
            n = nlines(genes)
            shuffled = draw(st.booleans())
            order = list(draw(st.permutations(list(range(n))))) if shuffled else list(range(n))
            d = {"style": "gtf", "sep": draw(st.sampled_from(tm.SEPS)), "trailing": draw(st.booleans()), "repeated": False}
            return {"genes": genes, "order": order, "dialect": d, "keys": keys, "custom": custom,
                    "disable_genes": draw(st.booleans()), "disable_transcripts": draw(st.booleans()),
                    "file_db": draw(st.integers(0, 3)) == 0, "split_update": draw(st.integers(0, 3)) == 0,
                    "late_exons": draw(st.integers(0, 2)) == 0, "late_nested": draw(st.booleans()), "foreign_then_reopen": draw(st.integers(0, 2)) == 0,
                    "first_disabled": draw(st.integers(0, 2)) == 0,
                    "merge_strategy": draw(st.sampled_from([None, None, None, "replace", "merge", "create_unique", "warning"])),
                    "custom_prelude": draw(st.integers(0, 5)) == 0}

        return case().filter(lambda c: nlines(c["genes"]) >= 1 and any(
            s["ft"] == "EXON" for g in c["genes"] for t in g["transcripts"] for s in t["subs"]))

    def classify(self, case):
        multi_tx = any(len(g["transcripts"]) >= 2 for g in case["genes"])
        shuffled = case["order"] != sorted(case["order"])
        explicit = any(g["explicit"] or any(t["explicit"] for t in g["transcripts"]) for g in case["genes"])
        exonless = any(not any(s["ft"] == "EXON" for s in t["subs"]) for g in case["genes"] for t in g["transcripts"])
        labels = ["infer genes=%s transcripts=%s" % (not case["disable_genes"], not case["disable_transcripts"])]
        if case.get("split_update") and len(case["genes"]) >= 2 and not case["custom"]:
            labels.append("last-gene-through-update")
        elif case.get("late_exons") and not case["custom"]:
            labels.append("exons-arrive-through-update" + ("(nested-in-derived-gene drawn)" if case.get("late_nested") else ""))
        if case.get("foreign_then_reopen") and case["file_db"] and not case["custom"] and (case.get("split_update") or case.get("late_exons")):
            labels.append("constructed-feature-update-and-reopen-before")
        if case.get("first_disabled") and not case["custom"] and (case.get("split_update") or case.get("late_exons")):
            labels.append("first-import-with-inference-off")
        if case.get("merge_strategy"):
            labels.append("merge_strategy=" + case["merge_strategy"])
        if any(g.get("orphans") for g in case["genes"]):
            labels.append("exon-without-transcript")
        for name, flag in (("multi-transcript", multi_tx), ("shuffled", shuffled), ("explicit-line", explicit),
                           ("exonless-transcript", exonless), ("custom-keys", case["custom"])):
            if flag:
                labels.append(name)
        return multi_tx or shuffled or explicit or exonless, labels

    @staticmethod
    def _late_target(case, model):
        if case.get("late_nested"):
            # a further transcript of a gene that is derived already by the first import, its exons inside the extent the
            # gene has without them: the update must give this transcript its feature and leave the gene as it is
            for g in model["genes"].values():
                with_exons = [t for t in g["tx"] if model["tx"][t]["exons"]]
                if len(with_exons) >= 2:
                    for t in with_exons:
                        mine = list(model["tx"][t]["exons"])
                        rest = list(g["exons"])
                        for e in mine:
                            rest.remove(e)
                        if rest and min(a for a, b in rest) <= min(a for a, b in mine) and max(b for a, b in mine) <= max(b for a, b in rest):
                            return t
        for g in model["genes"].values():
            with_exons = [t for t in g["tx"] if model["tx"][t]["exons"]]
            if len(with_exons) == 1 and len(g["tx"]) >= 1:
                return with_exons[0]
        return None

    @staticmethod
    def _foreign_then_reopen(case, db, dbfn, kw):
        """Before the GTF lines arrive through update(): an update with a Feature built through the constructor (it
        carries the default, GFF3, dialect and no transcript/gene attribute), then the file is reopened.  The database
        stays a GTF database: the later lines still go through the GTF importer."""
        if not (case.get("foreign_then_reopen") and case["file_db"]):
            return db
        import gffutils
        from gffutils.feature import Feature

        db.update([Feature(seqid="chrM", source="src", featuretype="marker", start=1, end=2, attributes={"note": ["m"]})],
                  make_backup=False, **kw)
        db.conn.close()
        return gffutils.FeatureDB(dbfn, keep_order=True)

    def check(self, case, ctx):
        import gffutils
        from gffutils.exceptions import FeatureNotFoundError

        recs, model = build(case)
        tk, gk, sub = case["keys"]
        d = case["dialect"]
        lines = [tm.render_line(r, d) for r in recs]
        path = ctx.write("a.gtf", "\n".join(lines) + "\n")
        kw = dict(disable_infer_genes=case["disable_genes"], disable_infer_transcripts=case["disable_transcripts"])
        if case["custom"]:
            kw.update(gtf_transcript_key=tk, gtf_gene_key=gk, gtf_subfeature=sub, id_spec={"gene": gk, "transcript": tk})
        if case.get("merge_strategy"):
            # no two lines of a generated file share an id, so the strategy for duplicate lines decides nothing here
            kw["merge_strategy"] = case["merge_strategy"]
        if case.get("custom_prelude"):
            # an unrelated import with custom keys (and no id_spec) earlier in the same process
            gffutils.create_db('chrP\tsrc\texon\t1\t5\t.\t+\t.\tgid "pg"; tid "pt";\n', ":memory:", from_string=True,
                               gtf_gene_key="gid", gtf_transcript_key="tid")
        kw1 = dict(kw)
        if case.get("first_disabled"):
            # the first import runs with inference off; the update (inference as generated) then derives for everything stored
            kw1.update(disable_infer_genes=True, disable_infer_transcripts=True)
        dbfn = ctx.path("a.db") if case["file_db"] else ":memory:"
        split = case.get("split_update")
        if split and len(case["genes"]) >= 2 and not case["custom"]:
            # (custom keys are not combined with update(): update() hands its keyword arguments to the importer
            # class, which knows them as transcript_key/gene_key/subfeature, not by create_db's gtf_* names)
            # the last gene's lines arrive later through update() with the same arguments (as the docs ask);
            # the lines are regrouped so that the first import holds complete genes
            last = case["genes"][-1]["id"]
            recs = [r for r in recs if r["gene"] != last] + [r for r in recs if r["gene"] == last]
            lines = [tm.render_line(r, d) for r in recs]
            k = sum(1 for r in recs if r["gene"] != last)
            p1 = ctx.write("a1.gtf", "\n".join(lines[:k]) + "\n")
            p2 = ctx.write("a2.gtf", "\n".join(lines[k:]) + "\n")
            db = gffutils.create_db(p1, dbfn, keep_order=True, **kw1)
            db = self._foreign_then_reopen(case, db, dbfn, kw1)
            db.update(p2, make_backup=False, **kw)
        elif case.get("late_exons") and not case["custom"] and self._late_target(case, model) is not None:
            # the exon lines of one transcript (the only exon-bearing transcript of its gene) arrive later through
            # update(): until then neither it nor its gene can be inferred, afterwards both must be
            tid = self._late_target(case, model)
            late = [r for r in recs if r["tx"] == tid and r["kind"] == "sub" and r["cols"][2] == sub]
            early = [r for r in recs if not (r["tx"] == tid and r["kind"] == "sub" and r["cols"][2] == sub)]
            if early and late:
                recs = early + late
                lines = [tm.render_line(r, d) for r in recs]
                p1 = ctx.write("a1.gtf", "\n".join(lines[:len(early)]) + "\n")
                p2 = ctx.write("a2.gtf", "\n".join(lines[len(early):]) + "\n")
                db = gffutils.create_db(p1, dbfn, keep_order=True, **kw1)
                db = self._foreign_then_reopen(case, db, dbfn, kw1)
                db.update(p2, make_backup=False, **kw)
                split = True
            else:
                split = False
                db = gffutils.create_db(path, dbfn, keep_order=True, **kw)
        else:
            split = False
            db = gffutils.create_db(path, dbfn, keep_order=True, **kw)
        if db.dialect["fmt"] != "gtf":
            return Failure("GTF file imported with fmt %r" % db.dialect["fmt"], sig={"kind": "routing"})
        if case["file_db"]:
            db.conn.close()
            db = gffutils.FeatureDB(dbfn, keep_order=True)
        feats = [f for f in db.all_features() if f.featuretype != "marker"]
        n = len(recs)
        if split:
            # rows are no longer "file lines first": put the file's lines first, by id, for the checks below
            derived_rows = [f for f in feats if f.source == "gffutils_derived"]
            feats = [f for f in feats if f.source != "gffutils_derived"] + derived_rows
        # reference ids of file lines
        counters = {}
        line_ids = []
        for r in recs:
            if r["kind"] == "gene":
                line_ids.append(r["gene"])
            elif r["kind"] == "transcript":
                line_ids.append(r["tx"])
            else:
                ft = r["cols"][2]
                counters[ft] = counters.get(ft, 0) + 1
                line_ids.append("%s_%d" % (ft, counters[ft]))
        if [f.id for f in feats[:n]] != line_ids:
            return Failure("ids of the file's lines %r, expected %r" % ([f.id for f in feats[:n]], line_ids), sig={"kind": "line-ids"})
        for f, line in zip(feats[:n], lines):
            if str(f) != line:
                return Failure("file line stored as %r, input %r" % (str(f), line), sig={"kind": "line-changed"})
        derived = feats[n:]
        byid = dict((f.id, f) for f in feats)
        if len(byid) != len(feats):
            return Failure("duplicate ids among stored features", sig={"kind": "dup-ids"})

        # expected derived features
        want = {}
        for t in model["tx"].values():
            if t["exons"] and not t["explicit"] and not case["disable_transcripts"]:
                g = model["genes"][t["gene"]]
                want[t["id"]] = ("transcript", g["seqid"], min(a for a, b in t["exons"]), max(b for a, b in t["exons"]), g["strand"])
        for g in model["genes"].values():
            if g["exons"] and not g["explicit"] and not case["disable_genes"]:
                want[g["id"]] = ("gene", g["seqid"], min(a for a, b in g["exons"]), max(b for a, b in g["exons"]), g["strand"])
        got = {}
        for f in derived:
            if f.source != "gffutils_derived":
                return Failure("row beyond the file's lines has source %r: %r" % (f.source, str(f)), sig={"kind": "extra-row"})
            if f.id in got:
                return Failure("two derived features share id %r" % f.id, sig={"kind": "dup-derived"})
            got[f.id] = (f.featuretype, f.seqid, f.start, f.end, f.strand)
        if got != want:
            only_g = dict((k, v) for k, v in got.items() if want.get(k) != v)
            only_w = dict((k, v) for k, v in want.items() if got.get(k) != v)
            kind = "derived-extent" if set(got) == set(want) else "derived-set"
            return Failure(
                "derived features differ (disable_genes=%s disable_transcripts=%s): got %r, expected %r"
                % (case["disable_genes"], case["disable_transcripts"], only_g, only_w),
                sig={"kind": kind},
            )
        for fid, w in want.items():
            f = db[fid]
            if (f.featuretype, f.start, f.end) != (w[0], w[2], w[3]):
                return Failure("db[%r] is %r" % (fid, str(f)), sig={"kind": "lookup"})
            key = tk if w[0] == "transcript" else gk
            if list(f.attributes.get(key, [])) != [fid]:
                return Failure("derived %s %r carries %s=%r" % (w[0], fid, key, f.attributes.get(key)), sig={"kind": "derived-attrs"})
            import gffutils.bins as _b

            if f.bin != _b.bins(f.start, f.end):
                return Failure("derived feature %r has bin %r" % (fid, f.bin), sig={"kind": "derived-bin"})
        # explicit lines: single feature under the id, no <id>_n
        for r, lid in zip(recs, line_ids):
            if r["kind"] in ("gene", "transcript"):
                for k in byid:
                    if k != lid and k.startswith(lid + "_") and k[len(lid) + 1:].isdigit():
                        return Failure("explicit %s line %r also produced %r" % (r["kind"], lid, k), sig={"kind": "explicit-dup"})
        # relations
        stored = set(byid)
        sub_ids = dict((lid, r) for r, lid in zip(recs, line_ids))
        nq = 0
        for tid, t in model["tx"].items():
            if tid not in stored:
                try:
                    db[tid]
                except FeatureNotFoundError:
                    continue
                return Failure("transcript %r without a feature is retrievable" % tid, sig={"kind": "phantom"})
            wantc = set(lid for lid, r in sub_ids.items() if r["tx"] == tid and r["kind"] == "sub")
            for level, w in ((1, wantc), (None, wantc), (2, set())):
                gotc = [f.id for f in db.children(tid, level=level)]
                nq += 1
                if tid in gotc:
                    return Failure("transcript %r is its own child (level=%r)" % (tid, level), sig={"kind": "self-relative"})
                if sorted(gotc) != sorted(w):
                    return Failure("children(%r, level=%r) = %r, expected %r" % (tid, level, sorted(gotc), sorted(w)),
                                   sig={"kind": "children-transcript"})
            gp = [f.id for f in db.parents(tid, level=1)]
            nq += 1
            wg = [t["gene"]] if t["gene"] in stored else []
            if tid in gp:
                return Failure("transcript %r is its own parent" % tid, sig={"kind": "self-relative"})
            if sorted(gp) != wg:
                return Failure("parents(%r, level=1) = %r, expected %r" % (tid, gp, wg), sig={"kind": "parents-transcript"})
        for gid, g in model["genes"].items():
            if gid not in stored:
                continue
            txs = set(t for t in g["tx"] if t in stored)
            got1 = [f.id for f in db.children(gid, level=1)]
            got2 = [f.id for f in db.children(gid, level=2)]
            gotp = [f.id for f in db.parents(gid)]
            nq += 3
            if gid in got1 or gid in got2 or gid in gotp:
                return Failure("gene %r is its own relative" % gid, sig={"kind": "self-relative"})
            if sorted(got1) != sorted(txs):
                return Failure("children(%r, level=1) = %r, expected the stored transcripts %r" % (gid, sorted(got1), sorted(txs)),
                               sig={"kind": "children-gene-1"})
            subs = set(lid for lid, r in sub_ids.items() if r["gene"] == gid and r["kind"] == "sub")
            if not (subs <= set(got2) <= subs | txs) or len(got2) != len(set(got2)):
                return Failure("children(%r, level=2) = %r, expected the gene's other lines %r (transcripts %r tolerated)"
                               % (gid, sorted(got2), sorted(subs), sorted(txs)), sig={"kind": "children-gene-2"})
            if gotp:
                return Failure("gene %r has parents %r" % (gid, gotp), sig={"kind": "parents-gene"})
        for lid, r in sub_ids.items():
            if r["kind"] != "sub":
                continue
            p1 = [f.id for f in db.parents(lid, level=1)]
            p2 = [f.id for f in db.parents(lid, level=2)]
            nq += 2
            w1 = [r["tx"]] if r["tx"] in stored else []
            w2 = [r["gene"]] if r["gene"] in stored else []
            if p1 != w1 or p2 != w2:
                return Failure("parents(%r) = level1 %r level2 %r, expected %r / %r" % (lid, p1, p2, w1, w2), sig={"kind": "parents-sub"})
        ctx.count("relation queries", nq)
        return None


LEGS = [GtfLeg()]
