"""
C08  Attribute values survive print/parse losslessly; parsing never fails.

(a) round trip: Feature(attributes=mapping, dialect=D) -> str -> feature_from_line(.., dialect=D)
    gives the same columns and the same mapping; the printed text is one line of 9 (+extras) columns.
(b) totality: every string in the attribute column parses without raising to {str: [str]}.
"""
import itertools

from gfv import core
from gfv.core import Failure

PROP = "C08"
RULE = (
    "(a) mappings of 1-4 word-like keys to 1-3 non-empty values over arbitrary Unicode mixed with the structural "
    "alphabet (tab, newline, CR, %, ;, =, &, comma, quote, space, controls, VT/FF/FS, NEL, U+2028/U+2029 and code points above U+00FF), printed and re-parsed under a supplied "
    "dialect: field separator x key/value separator x quoting x repeated keys x trailing semicolon with fmt=gff3, and "
    "GTF-style dialects (fmt=gtf, 'key \"value\"' or 'key value') with values free of ; \" , and controls. Non-trivial = "
    "some value contains a reserved or control character (gff3) / a space, '=', '%' or non-ASCII (gtf). "
    "(b) every string up to length 5 (quick) / 7 (thorough) over the 8 symbols ; = \" , % a 2 and space, enumerated "
    "exhaustively, plus random text; non-trivial = at least 2 structural characters. Distinct by construction / hash. "
    "(fuzz_parse) atheris campaigns on the same totality oracle from an empty corpus and from column-9 strings of the "
    "repository's test data; distinct non-trivial counted conservatively as the final corpus units that satisfy the rule."
)
ASSUMPTIONS = [
    "keys are word-like ([A-Za-z_][A-Za-z0-9_.-]*); values are non-empty strings of Unicode scalar values",
    "GTF-style dialects use ' ' as key/value separator (fmt=gtf with '=' is never inferred and not what the statement calls GTF-style)",
    "unquoted GTF-style values have no leading/trailing whitespace (the format has no delimiter for it)",
    "'single line' means no \\n or \\r in the printed text",
]

ALPHABET = ';="' + ",%a2 "


def _dialect(fmt, sep, kv, quoted, repeated, trailing):
    return {
        "leading semicolon": False,
        "trailing semicolon": trailing,
        "quoted GFF2 values": quoted,
        "field separator": sep,
        "keyval separator": kv,
        "multival separator": ",",
        "fmt": fmt,
        "repeated keys": repeated,
        "order": [],
    }


_PROCESS = {"printed": False}  # per process: has any case printed a feature here yet?

class RoundTripLeg(object):
    kind = "hyp"
    name = "roundtrip"
    budget = {"quick": (8, 2500), "thorough": (16, 50000)}

    def strategy(self):
        from hypothesis import strategies as st

        key = st.one_of(
            st.sampled_from(["ID", "Name", "Parent", "gene_id", "note", "product", "description", "Note", "Dbxref", "Ontology_term", "Alias"]),
            st.from_regex(r"[A-Za-z_][A-Za-z0-9_.\-]{0,6}", fullmatch=True),
        )
        structural = list("\t\n\r%;=&,\" ab1") + ["\x00", "\x1f", "\x7f", "\x85", " ", "é", "%3B", "%25", "\\t",
                                                  # line-separator look-alikes and code points above U+00FF (an escape of more than two hex digits would not decode)
                                                  "\u2028", "\u2029", "\x0b", "\x0c", "\x1c", "\u0100", "中", "\U0001f600"]
        v_any = st.one_of(
            st.text(alphabet=st.characters(blacklist_categories=("Cs",)), min_size=1, max_size=8),
            st.lists(st.sampled_from(structural), min_size=1, max_size=6).map("".join),
            st.sampled_from(["a", "1", "x y", '"', '""', '"q"', " ", "  a  ", "%", "%41", ",", ";", "a;b=c", "\t", "\n"]),
            # text that looks like an HTML / XML entity or a URL query is ordinary text
            st.sampled_from(["&lt;", "AT&amp;T", "&#65;", "&#x41", "a&copy=1", "x=1&sect=2", "&amp;amp;", "&", "&&", "&;", "+", "a+b", "%2B"]),
        )
        gtf_chars = st.characters(blacklist_categories=("Cs", "Cc"), blacklist_characters=';",')
        v_gtf = st.one_of(
            st.text(alphabet=gtf_chars, min_size=1, max_size=8),
            st.text(alphabet=st.sampled_from(list("ab1 =&%'.:-_") + ["é", "中"]), min_size=1, max_size=6),
        )

        @st.composite
        def case(draw):
            gtf = draw(st.integers(0, 3)) == 0
            sep = draw(st.sampled_from([";", "; ", " ; "]))
            repeated = draw(st.booleans())
            trailing = draw(st.booleans())
            quoted = draw(st.booleans())
            if gtf:
                kv = " "
                fmt = "gtf"
                val = v_gtf if quoted else v_gtf.filter(lambda s: s == s.strip())
            else:
                kv = draw(st.sampled_from(["=", "=", " "]))
                fmt = "gff3"
                val = v_any
                if kv == " ":
                    # 'key value' text: the blank after the key is the only delimiter, so the
                    # value cannot carry its own edge blanks unless it is quoted
                    if not quoted:
                        val = v_any.filter(lambda s: s == s.strip())
            n = draw(st.integers(1, 4))
            keys = draw(st.lists(key, min_size=n, max_size=n, unique=True))
            attrs = [[k, draw(st.lists(val, min_size=1, max_size=3))] for k in keys]
            extras = draw(st.one_of(st.just([]), st.lists(st.sampled_from(["x", "", "a b", "7"]), min_size=1, max_size=2)))
            cols = [
                draw(st.sampled_from(["chr1", "c 1", "χ"])),
                draw(st.sampled_from([".", "src"])),
                draw(st.sampled_from(["gene", "exon"])),
                draw(st.sampled_from([".", "1", "100"])),
                draw(st.sampled_from([".", "100", "5000"])),
                draw(st.sampled_from([".", "0.5"])),
                draw(st.sampled_from(["+", "-", "."])),
                draw(st.sampled_from([".", "0"])),
            ]
            dd = _dialect(fmt, sep, kv, quoted, repeated, trailing)
            if fmt == "gff3" and draw(st.integers(0, 5)) == 0:
                dd["leading semicolon"] = True  # what inference reports for "Transcript B0019.1; ;Note ..." style text
            return {
                "dialect": dd,
                "attrs": attrs,
                "cols": cols,
                "extras": extras,
                "toggled_before": draw(st.integers(0, 7)) == 0,
            }

        return case()

    def classify(self, case):
        d = case["dialect"]
        vals = [v for _, vs in case["attrs"] for v in vs]
        if d["fmt"] == "gff3":
            nt = any(ch in "\t\n\r%;=&,\"" or ord(ch) < 32 or ord(ch) == 127 for v in vals for ch in v)
        else:
            nt = any(ch in " =%" or ord(ch) > 127 for v in vals for ch in v)
        labels = ["fmt=%s kv=%r quoted=%s" % (d["fmt"], d["keyval separator"], d["quoted GFF2 values"])]
        if d["repeated keys"] and any(len(vs) > 1 for _, vs in case["attrs"]):
            labels.append("repeated-multi")
        if any(v != v.strip() for v in vals):
            labels.append("edge-whitespace")
        if any("\n" in v or "\t" in v or "\r" in v for v in vals):
            labels.append("tab-or-newline")
        return nt, labels

    def check(self, case, ctx):
        from gffutils.feature import Feature, feature_from_line

        d = dict(case["dialect"])
        mapping = dict((k, list(vs)) for k, vs in case["attrs"])
        cols = case["cols"]
        if case.get("toggled_before") or not _PROCESS["printed"]:
            # constants.ignore_url_escape_characters was switched on for an earlier print in this process and is
            # off again now: it must not leave anything behind.  Always done by the first case a process runs (before
            # anything else has been printed there), with every reserved character.
            from gffutils import constants

            every = "".join(chr(c) for c in list(range(0, 32)) + [127]) + ";=%&,"
            constants.ignore_url_escape_characters = True
            try:
                str(Feature(seqid="c", start=1, end=2, attributes={"ID": ["sw"], "Note": [every]}))
                str(Feature(seqid="c", start=1, end=2, attributes=dict((k, list(v)) for k, v in mapping.items()), dialect=d))
            finally:
                constants.ignore_url_escape_characters = False
        _PROCESS["printed"] = True
        f = Feature(
            seqid=cols[0], source=cols[1], featuretype=cols[2], start=cols[3], end=cols[4],
            score=cols[5], strand=cols[6], frame=cols[7],
            attributes=dict((k, list(v)) for k, v in mapping.items()),
            extra=list(case["extras"]), dialect=d, keep_order=True,
        )
        line = str(f)
        if "\n" in line or "\r" in line:
            return Failure("printed feature contains a line break: %r" % line, sig={"kind": "linebreak"})
        ncol = len(line.split("\t"))
        want_ncol = 9 + len(case["extras"])
        if ncol != want_ncol:
            return Failure("printed feature has %d tab-separated columns, expected %d: %r" % (ncol, want_ncol, line),
                           sig={"kind": "columns"})
        g = feature_from_line(line, dialect=d, keep_order=True)
        got_cols = [g.seqid, g.source, g.featuretype, g.start, g.end, g.score, g.strand, g.frame]
        exp_cols = list(cols)
        exp_cols[3] = None if cols[3] == "." else int(cols[3])
        exp_cols[4] = None if cols[4] == "." else int(cols[4])
        if got_cols != exp_cols or list(g.extra) != list(case["extras"]):
            return Failure("columns changed in the round trip: %r / %r vs %r / %r" % (got_cols, g.extra, exp_cols, case["extras"]),
                           sig={"kind": "rt-columns"})
        have = dict((k, list(v)) for k, v in g.attributes.items())
        if have != mapping or list(have.keys()) != list(mapping.keys()):
            return Failure(
                "mapping changed in the round trip:\n sent %r\n line %r\n got  %r" % (mapping, line, have),
                sig={"kind": "rt-mapping", "fmt": d["fmt"], "kv": d["keyval separator"]},
            )
        # the parsed feature (Attributes-backed) printed, hashed, then edited IN PLACE (value list mutated,
        # not re-assigned), must print and re-parse as the mapping it holds now
        if str(g) != line:
            return Failure("re-parsed feature prints %r, expected %r" % (str(g), line), sig={"kind": "rt-reprint"})
        hash(g)
        k0 = list(mapping.keys())[0]
        extra = mapping[k0][0]
        g.attributes[k0].append(extra + "2" if d["fmt"] == "gff3" or extra.strip() == extra else "x2")
        want2 = dict((k, list(v)) for k, v in mapping.items())
        want2[k0] = want2[k0] + [g.attributes[k0][-1]]
        line2 = str(g)
        h = feature_from_line(line2, dialect=d, keep_order=True)
        have2 = dict((k, list(v)) for k, v in h.attributes.items())
        if have2 != want2:
            return Failure("after appending a value in place, the feature prints %r which parses to %r, expected %r"
                           % (line2, have2, want2), sig={"kind": "rt-stale-after-edit"})
        return None


GRAMMAR_DIALECTS = [
    None,
    _dialect("gff3", ";", "=", False, False, False),
    _dialect("gff3", "; ", "=", False, True, True),
    _dialect("gtf", "; ", " ", True, False, True),
    _dialect("gff3", " ; ", " ", False, False, False),
    dict(_dialect("gff3", ";", " ", True, True, False), **{"leading semicolon": True}),
]


def _check_result(res, s, dname):
    if not (isinstance(res, tuple) and len(res) == 2):
        return Failure("_split_keyvals(%r) returned %r" % (s, res), sig={"kind": "shape"})
    quals, dialect = res
    try:
        items = list(quals.items())
    except Exception as e:  # noqa
        return Failure("result of parsing %r is not a mapping: %r" % (s, e), sig={"kind": "shape"})
    for k, v in items:
        if not isinstance(k, str) or not isinstance(v, list) or not all(isinstance(i, str) for i in v):
            return Failure("parsing %r (%s) gave %r -> %r, not str -> [str]" % (s, dname, k, v), sig={"kind": "types"})
    if not isinstance(dialect, dict):
        return Failure("parsing %r gave dialect %r" % (s, dialect), sig={"kind": "shape"})
    return None


def parse_total(s):
    """Totality oracle for one attribute string."""
    import copy

    from gffutils import parser
    from gffutils.feature import feature_from_line
    from gffutils.helpers import infer_dialect

    for i, d in enumerate(GRAMMAR_DIALECTS):
        try:
            res = parser._split_keyvals(s, dialect=copy.deepcopy(d) if d else None)
        except Exception as e:  # noqa
            f = core.raised_failure(e, "_split_keyvals(%r, dialect #%d)" % (s, i))
            f.sig["kind"] = "parse-raised"
            return f
        bad = _check_result(res, s, "dialect #%d" % i)
        if bad:
            return bad
    try:
        # results of separate calls are independent: editing one does not show up in the next
        q1, _d1 = parser._split_keyvals(s)
        before = [(k, list(v)) for k, v in q1.items()]
        q1["__edited__"] = ["x"]
        for k in list(q1.keys()):
            if isinstance(q1[k], list):
                q1[k].append("y")
        q2, _d2 = parser._split_keyvals(s)
        if [(k, list(v)) for k, v in q2.items()] != before:
            return Failure("parsing %r again after the first result was edited gives %r, first time %r"
                           % (s, [(k, list(v)) for k, v in q2.items()], before), sig={"kind": "shared-parse-result"})
    except Exception as e:  # noqa
        fl = core.raised_failure(e, "_split_keyvals(%r) twice" % s)
        fl.sig["kind"] = "parse-raised"
        return fl
    try:
        f = feature_from_line("c\t.\tt\t1\t2\t.\t+\t.\t" + s)
        items = list(f.attributes.items())
        dd = infer_dialect(s)
    except Exception as e:  # noqa
        fl = core.raised_failure(e, "feature_from_line(.. %r)" % s)
        fl.sig["kind"] = "parse-raised"
        return fl
    for k, v in items:
        if not isinstance(v, list) or not all(isinstance(i, str) for i in v):
            return Failure("feature_from_line attr %r -> %r" % (k, v), sig={"kind": "types"})
    f.attributes["__edited__"] = ["x"]
    g = feature_from_line("c\t.\tt\t1\t2\t.\t+\t.\t" + s)
    if "__edited__" in g.attributes and "__edited__" not in dict(items):
        return Failure("a second feature parsed from %r carries an attribute added to the first" % s, sig={"kind": "shared-parse-result"})
    if not isinstance(dd, dict):
        return Failure("infer_dialect(%r) = %r" % (s, dd), sig={"kind": "shape"})
    return None


class ExhaustiveStringsLeg(object):
    kind = "custom"
    name = "strings_exhaustive"
    budget = {"quick": (16, 0), "thorough": (16, 0)}
    maxlen = {"quick": 5, "thorough": 7}

    def classify(self, case):
        return sum(1 for ch in case["s"] if ch in ';=",% ') >= 2, []

    def check(self, case, ctx):
        return parse_total(case["s"])

    def run(self, rec, tier, seed, shard, nshards, deadline):
        import time

        n = nt = 0
        i = 0
        complete = True
        samples = []
        for L in range(0, self.maxlen[tier] + 1):
            for tup in itertools.product(ALPHABET, repeat=L):
                i += 1
                if i % nshards != shard:
                    continue
                s = "".join(tup)
                n += 1
                if sum(1 for ch in s if ch in ';=",% ') >= 2:
                    nt += 1
                    if len(samples) < 3 and L >= 4 and i % 997 == shard:
                        samples.append({"s": s})
                f = parse_total(s)
                if f is not None:
                    rec.count_bulk(n, nt)
                    rec.report({"s": s}, f)
                    return
                if (n & 4095) == 0 and time.monotonic() > deadline:
                    complete = False
                    break
            if not complete:
                break
        rec.count_bulk(n, nt, labels={"strings": n}, samples=samples)
        rec.exhaustive = complete
        if not complete:
            rec.skipped_after_budget += 1
        rec.notes.append("all strings of length <= %d over the %d-symbol alphabet %r; %d parsing configurations each"
                         % (self.maxlen[tier], len(ALPHABET), ALPHABET, len(GRAMMAR_DIALECTS) + 1))


class RandomStringsLeg(object):
    kind = "hyp"
    name = "strings_random"
    budget = {"quick": (8, 2000), "thorough": (16, 40000)}

    def strategy(self):
        from hypothesis import strategies as st

        return st.fixed_dictionaries(
            {
                "s": st.one_of(
                    st.text(alphabet=st.characters(blacklist_categories=("Cs",)), max_size=30),
                    st.lists(st.sampled_from(list(ALPHABET) + ["\t", "=", ";;", '""', "%%", "%G", "%e9", "\x00", "é", " ; ", "; "]),
                             max_size=24).map("".join),
                    st.lists(
                        st.one_of(
                            st.sampled_from(["ID=a", "Parent=a,b", 'gene_id "x"', "flag", "k v", '""', "=", " ", "a=b=c", "%41%zz", 'k "a;b"']),
                            st.text(alphabet=st.sampled_from(list(ALPHABET)), max_size=5),
                        ),
                        max_size=6,
                    ).flatmap(lambda parts: st.sampled_from([";", "; ", " ; ", ";;"]).map(lambda sep: sep.join(parts))),
                )
            }
        )

    def classify(self, case):
        s = case["s"]
        return sum(1 for ch in s if ch in ';=",% ') >= 2, ["len>=10"] if len(s) >= 10 else []

    def check(self, case, ctx):
        return parse_total(case["s"])


def _seed_corpus():
    """Column-9 strings harvested at run time from the repository's own test data."""
    import glob
    import os

    from gfv import core as _core

    out = []
    for path in sorted(glob.glob(os.path.join(_core.REPO, "gffutils", "test", "data", "*")))[:40]:
        if not os.path.isfile(path) or path.endswith((".gz", ".fa", ".fai", ".db", ".sh")):
            continue
        try:
            with open(path, "rb") as fh:
                for i, line in enumerate(fh):
                    if i > 40:
                        break
                    parts = line.rstrip(b"\r\n").split(b"\t")
                    if len(parts) >= 9 and not line.startswith(b"#") and len(parts[8]) <= 200:
                        out.append(parts[8])
        except OSError:
            continue
    return out[:300]


def _nt_bytes(b):
    s = b.decode("utf-8", "ignore")
    return sum(1 for ch in s if ch in ';=",% ') >= 2


from gfv.fuzzleg import FuzzLeg  # noqa: E402

LEGS = [RoundTripLeg(), ExhaustiveStringsLeg(), RandomStringsLeg(),
        FuzzLeg("fuzz_parse", "c08", {"quick": (2, 30000), "thorough": (4, 1500000)}, _nt_bytes, _seed_corpus, max_len=96)]
