"""
C18  Coordinate conventions of exports: length, sequence and BED12.

Oracles: arithmetic on the generated coordinates; a slice of the generated reference
sequence with an own IUPAC complement table; BED12 fields computed from the generated
transcript structure.
"""
from gfv.core import Failure

PROP = "C18"
RULE = (
    "(sequence) random reference FASTA files (2-3 records, 10-200 bases over ACGTN + IUPAC codes in both cases, generated "
    "line width) and features anywhere inside them on either strand, use_strand on/off, FASTA given as path or pyfaidx "
    "object; (bed12) GFF3 transcripts with 0-6 non-overlapping exons, 0-4 CDS and UTRs, block/thick/thin featuretype "
    "choices, name field present or absent, id or Feature argument, a share with blocks that do not span the transcript. "
    "Non-trivial = minus strand, or >= 2 blocks, or thick features present, or a non-spanning block set. Distinct by hash."
)
ASSUMPTIONS = [
    "features lie inside the reference sequence; reference lines have one width per record (FASTA index requirement)",
    "block features of one transcript do not overlap each other",
    "thickStart/thickEnd are asserted only when thick (or thin) features are present (statement)",
]

COMP = {"A": "T", "C": "G", "G": "C", "T": "A", "N": "N", "R": "Y", "Y": "R", "K": "M", "M": "K", "S": "S", "W": "W",
        "B": "V", "V": "B", "D": "H", "H": "D"}
COMP.update(dict((k.lower(), v.lower()) for k, v in list(COMP.items())))


def revcomp(s):
    return "".join(COMP[c] for c in reversed(s))


class SequenceLeg(object):
    kind = "hyp"
    name = "sequence"
    budget = {"quick": (8, 1000), "thorough": (16, 15000)}

    def strategy(self):
        from hypothesis import strategies as st

        base = st.sampled_from(list("ACGTNacgtn") * 3 + list("RYKMSWBDHVrykmswbdhv"))

        @st.composite
        def case(draw):
            nrec = draw(st.integers(2, 3))
            recs = []
            for i in range(nrec):
                seq = "".join(draw(st.lists(base, min_size=10, max_size=200)))
                recs.append({"name": draw(st.sampled_from(["chr%d" % (i + 1), "seq_%d" % i, "X%d" % i])), "seq": seq,
                             "width": draw(st.sampled_from([7, 10, 50, 60, 1000]))})
            feats = []
            for _ in range(draw(st.integers(1, 6))):
                r = draw(st.integers(0, nrec - 1))
                L = len(recs[r]["seq"])
                s = draw(st.integers(1, L))
                e = draw(st.integers(s, min(L, s + draw(st.sampled_from([0, 1, 5, 50, 200])))))
                feats.append({"rec": r, "start": s, "end": e, "strand": draw(st.sampled_from(["+", "-", "."])),
                              "use_strand": draw(st.booleans()), "as_object": draw(st.booleans())})
            return {"records": recs, "features": feats, "desc": draw(st.booleans())}

        return case()

    def classify(self, case):
        minus = any(f["strand"] == "-" and f["use_strand"] for f in case["features"])
        wrap = any(f["end"] - f["start"] + 1 > case["records"][f["rec"]]["width"] for f in case["features"])
        return minus or wrap, (["minus-strand"] if minus else []) + (["spans-line-break"] if wrap else [])

    def check(self, case, ctx):
        import pyfaidx
        from gffutils.feature import Feature

        lines = []
        for r in case["records"]:
            lines.append(">" + r["name"] + (" some description" if case["desc"] else ""))
            for i in range(0, len(r["seq"]), r["width"]):
                lines.append(r["seq"][i : i + r["width"]])
        import os

        # the same path is rewritten for every case of this process, and the index file written by an
        # earlier case is still lying next to it: the file named now is what counts
        keep = os.path.join(ctx.root, "fasta")
        os.makedirs(keep, exist_ok=True)
        path = os.path.join(keep, "ref.fa")
        with open(path, "w") as fh:
            fh.write("\n".join(lines) + "\n")
        st_ = os.stat(path)
        os.utime(path, (st_.st_atime, st_.st_mtime + 2 * (ctx._n + 1)))  # strictly newer than any index left behind
        ctx._n += 1
        fa = None
        for f in case["features"]:
            r = case["records"][f["rec"]]
            feat = Feature(seqid=r["name"], source="s", featuretype="exon", start=f["start"], end=f["end"], strand=f["strand"])
            n = len(feat)
            if n != f["end"] - f["start"] + 1:
                return Failure("len(feature %d..%d) = %r" % (f["start"], f["end"], n), sig={"kind": "len"})
            if f["as_object"]:
                if fa is None:
                    fa = pyfaidx.Fasta(path, as_raw=False)
                src = fa
            else:
                src = path
            got = feat.sequence(src, use_strand=f["use_strand"])
            want = r["seq"][f["start"] - 1 : f["end"]]
            if f["strand"] == "-" and f["use_strand"]:
                want = revcomp(want)
            ctx.count("sequences compared")
            if got != want:
                return Failure("sequence(%s:%d-%d, strand %s, use_strand=%s) = %r, reference bases %r"
                               % (r["name"], f["start"], f["end"], f["strand"], f["use_strand"], got, want),
                               sig={"kind": "sequence", "minus": f["strand"] == "-" and f["use_strand"]})
            if len(got) != n:
                return Failure("sequence length %d, len(feature) %d" % (len(got), n), sig={"kind": "sequence-length"})
        if fa is not None:
            fa.close()
        return None


class Bed12Leg(object):
    kind = "hyp"
    name = "bed12"
    budget = {"quick": (8, 800), "thorough": (16, 10000)}

    def strategy(self):
        from hypothesis import strategies as st

        @st.composite
        def case(draw):
            ne = draw(st.sampled_from([0, 1, 1, 2, 3, 4, 6]))
            pos = draw(st.one_of(st.sampled_from([1, 1, 2]), st.integers(1, 500)))
            exons = []
            for i in range(ne):
                L = draw(st.integers(0, 80))
                exons.append([pos, pos + L])
                pos += L + 1 + draw(st.integers(0, 60))
            if exons:
                tstart, tend = exons[0][0], exons[-1][1]
            else:
                tstart = draw(st.integers(1, 500))
                tend = tstart + draw(st.integers(0, 300))
            span = draw(st.sampled_from(["exact"] * 5 + ["start-", "end+"]))
            if span == "start-" and tstart > 1 and exons:
                tstart -= draw(st.integers(1, min(20, tstart - 1)))
            elif span == "end+" and exons:
                tend += draw(st.integers(1, 20))
            else:
                span = "exact"
            # CDS inside exons; UTR-like thin features
            cds = []
            for (a, b) in exons:
                if draw(st.integers(0, 2)) == 0 and len(cds) < 4:
                    x = draw(st.one_of(st.just(a), st.integers(a, b)))
                    y = draw(st.integers(x, b))
                    cds.append([x, y])
            if cds and draw(st.integers(0, 4)) == 0:
                # the last CDS runs past the transcript's end (a stop codon annotated outside the mRNA): still a thick feature
                cds[-1][1] = tend + draw(st.sampled_from([1, 3]))
            utrs = []
            if exons and draw(st.booleans()):
                utrs.append([exons[0][0], draw(st.integers(exons[0][0], exons[0][1]))])
                if len(exons) > 1 and draw(st.booleans()):
                    utrs.append([draw(st.integers(exons[-1][0], exons[-1][1])), exons[-1][1]])
            order = draw(st.permutations(list(range(ne))))
            cds_order = list(draw(st.permutations(list(range(len(cds))))))
            utr_order = list(draw(st.permutations(list(range(len(utrs))))))
            return {
                "cds_order": cds_order, "utr_order": utr_order,
                "tstart": tstart, "tend": tend, "span": span, "exons": exons, "cds": cds, "utrs": utrs, "order": list(order),
                "strand": draw(st.sampled_from(["+", "-", "."])), "score": draw(st.sampled_from([".", "0", "7.5"])),
                "has_name": draw(st.booleans()), "name_field": draw(st.sampled_from(["ID", "Name", "ID"])),
                "arg": draw(st.sampled_from(["id", "feature"])),
                "blocks": draw(st.sampled_from([["exon"], "exon", ["exon", "CDS"], ["nothing"], "noncoding_exon", "exon_CDS"])),
                "thick": draw(st.sampled_from(["CDS", ["CDS"], None])),
                "color": draw(st.sampled_from([None, None, "255,0,0", "1, 2, 3"])),
                "always_return_list": draw(st.integers(0, 5)) > 0,
                "two_level": draw(st.integers(0, 3)) == 0,
            }

        return case()

    def _blocks(self, case):
        types = [case["blocks"]] if isinstance(case["blocks"], str) else list(case["blocks"])
        out = []
        if "exon" in types:
            out += [tuple(x) for x in case["exons"]]
        if "CDS" in types:
            out += [tuple(x) for x in case["cds"]]
        return sorted(out)

    def classify(self, case):
        bl = self._blocks(case)
        thick = case["thick"] is not None and bool(case["cds"])
        labels = ["arg=" + case["arg"], "span=" + case["span"]]
        if not bl:
            labels.append("no-block-children")
        if thick:
            labels.append("thick")
        if case["thick"] is None and case["utrs"]:
            labels.append("thin")
        return case["strand"] == "-" or len(bl) >= 2 or thick or case["span"] != "exact", labels

    def check(self, case, ctx):
        import gffutils
        from gffutils import constants
        from gffutils.convert import to_bed12

        nm = ";Name=the name" if case["has_name"] else ""
        lines = ["\t".join(["chr1", "src", "mRNA", str(case["tstart"]), str(case["tend"]), case["score"], case["strand"], ".", "ID=tx" + nm])]
        if case.get("two_level"):
            # an intermediate feature between the transcript and some of its blocks: those blocks are related
            # to the transcript at level 1 and at level 2, and still count once
            lines.append("\t".join(["chr1", "src", "segment", str(case["tstart"]), str(case["tend"]), ".", case["strand"], ".", "ID=seg;Parent=tx"]))
        for k in case["order"]:
            a, b = case["exons"][k]
            par = "tx,seg" if (case.get("two_level") and k % 2 == 0) else "tx"
            lines.append("\t".join(["chr1", "src", "exon", str(a), str(b), ".", case["strand"], ".", "ID=e%d;Parent=%s" % (k, par)]))
        for i in case.get("cds_order", range(len(case["cds"]))):  # file order need not be coordinate order
            a, b = case["cds"][i]
            lines.append("\t".join(["chr1", "src", "CDS", str(a), str(b), ".", case["strand"], "0", "ID=c%d;Parent=tx" % i]))
        for i in case.get("utr_order", range(len(case["utrs"]))):
            a, b = case["utrs"][i]
            lines.append("\t".join(["chr1", "src", "UTR", str(a), str(b), ".", case["strand"], ".", "ID=u%d;Parent=tx" % i]))
        db = gffutils.create_db("\n".join(lines) + "\n", ":memory:", from_string=True)
        arg = "tx" if case["arg"] == "id" else db["tx"]
        kw = dict(block_featuretype=case["blocks"], name_field=case["name_field"])
        thin_mode = case["thick"] is None
        if thin_mode:
            kw.update(thick_featuretype=None, thin_featuretype="UTR")
        else:
            kw["thick_featuretype"] = case["thick"]
        if case["color"] is not None:
            kw["color"] = case["color"]
        blocks = self._blocks(case)
        overl = any(blocks[i][1] >= blocks[i + 1][0] for i in range(len(blocks) - 1))
        if overl:
            return None  # exon+CDS blocks overlap: outside the domain
        eff = blocks or [(case["tstart"], case["tend"])]
        spans = eff[0][0] == case["tstart"] and max(b for a, b in eff) == case["tend"]
        orig = constants.always_return_list
        constants.always_return_list = case["always_return_list"]
        try:
            try:
                line = db.bed12(arg, **kw)
                raised = None
            except ValueError as e:
                raised = e
        finally:
            constants.always_return_list = orig
        if not spans:
            if raised is None:
                return Failure("bed12: blocks %r do not span the transcript %d..%d but no ValueError was raised: %r"
                               % (eff, case["tstart"], case["tend"], line), sig={"kind": "span-not-checked"})
            return None
        if raised is not None:
            return Failure("bed12 raised ValueError(%s) although the blocks span the transcript" % raised, sig={"kind": "span-false-alarm"})
        if not isinstance(line, str) or "\n" in line:
            return Failure("bed12 returned %r" % (line,), sig={"kind": "shape"})
        fields = line.split("\t")
        if len(fields) != 12:
            return Failure("bed12 returned %d fields: %r" % (len(fields), line), sig={"kind": "shape"})
        cs, ce = case["tstart"] - 1, case["tend"]
        name = "."
        if case["name_field"] == "ID":
            name = "tx"
        elif case["has_name"]:
            name = "the name"
        want = {
            0: "chr1", 1: str(cs), 2: str(ce), 3: name, 5: case["strand"],  # (score: the statement and docstring are silent)
            8: (case["color"] or "0,0,0").replace(" ", ""),
            9: str(len(eff)), 10: ",".join(str(b - a + 1) for a, b in eff), 11: ",".join(str(a - 1 - cs) for a, b in eff),
        }
        labels = ["chrom", "chromStart", "chromEnd", "name", "score", "strand", "thickStart", "thickEnd", "itemRgb", "blockCount",
                  "blockSizes", "blockStarts"]
        if not thin_mode and case["cds"]:
            cd = sorted(tuple(x) for x in case["cds"])
            want[6] = str(cd[0][0] - 1)
            want[7] = str(max(b for a, b in cd))
        if thin_mode and case["utrs"]:
            ut = sorted(tuple(x) for x in case["utrs"])
            want[6] = str(ut[0][1])
            want[7] = str(ut[-1][0] - 1)
        for i, w in want.items():
            if fields[i] != w:
                return Failure("bed12 %s = %r, expected %r (line %r; blocks %r)" % (labels[i], fields[i], w, line, eff),
                               sig={"kind": "field", "field": labels[i]})
        starts = [int(x) for x in fields[11].split(",")]
        sizes = [int(x) for x in fields[10].split(",")]
        if starts[0] != 0 or cs + starts[-1] + sizes[-1] != ce:
            return Failure("bed12 blocks do not start at 0 / end at chromEnd: %r" % line, sig={"kind": "field", "field": "blockStarts"})
        # to_bed12 agrees where it applies
        if blocks and case["blocks"] in (["exon"], "exon"):
            other = to_bed12(arg, db, child_type="exon", name_field=case["name_field"]).rstrip("\n").split("\t")
            for i in (0, 1, 2, 9, 10, 11):
                if other[i] != fields[i]:
                    return Failure("convert.to_bed12 %s = %r, bed12 gives %r" % (labels[i], other[i], fields[i]), sig={"kind": "to_bed12"})
        return None


LEGS = [SequenceLeg(), Bed12Leg()]
