"""
C16  merge() computes the interval union and partitions its inputs.

Oracles: (1) a greedy reference with its own implementations of the shipped criteria,
(2) an independent sweep computing maximal runs of overlapping-or-adjacent intervals for
the default criteria, (3) a partition check by object identity, (4) database snapshots
for merge_all / children_bp.
"""
import itertools

from gfv import dbsnap
from gfv.core import Failure

PROP = "C16"
RULE = (
    "(exhaustive) every start-ordered multiset of up to 3 (quick) / 4 (thorough) intervals over positions 1..8, in both "
    "tie orders, under 7 criteria sets (default, exact coordinates, any-overlap, start-inclusive, end threshold 0/2, any "
    "threshold 1); distinct by construction, non-trivial = a run of >= 2 and a singleton in the same case. (random) 1-12 "
    "features with seqid/strand/type mixtures in grouped or arbitrary order, shipped and reflexive custom criteria, the same "
    "objects merged twice under the same and other criteria, outputs merged again. (db) generated databases for merge_all "
    "(both exclude_components) and children_bp, optionally followed by a merge() generator whose merged outputs are written back "
    "with update() while it is being consumed, a later merge() whose ids must not be stored yet, and two more merge() generators consumed in turns and abandoned after up to 3 merged outputs followed by a complete pass: no id is handed out twice on one handle."
)
ASSUMPTIONS = [
    "merge criteria are reflexive (criterion(f, f, ...) is true), as every shipped criterion is",
    "features have integer coordinates with start <= end and are given in non-decreasing start order where the statement speaks of extents",
    "children_bp's union clause is asserted for children on one seqid and strand (the default criteria merge per seqid/strand/type)",
]


# ---- reference criteria (own implementations, by documented meaning)
def r_seqid(acc, cur, comps):
    return cur["seqid"] == acc["seqid"]


def r_strand(acc, cur, comps):
    return acc["strand"] == cur["strand"]


def r_type(acc, cur, comps):
    return acc["ft"] == cur["ft"]


def r_exact(acc, cur, comps):
    return cur["start"] == acc["start"] and cur["end"] == acc["end"]


def r_end_incl(acc, cur, comps):
    return acc["start"] <= cur["start"] <= acc["end"] + 1


def r_start_incl(acc, cur, comps):
    return acc["start"] <= cur["end"] + 1 <= acc["end"] + 1


def r_any_incl(acc, cur, comps):
    return r_end_incl(acc, cur, comps) or r_start_incl(acc, cur, comps)


def r_end_thr(t):
    return lambda acc, cur, comps: acc["start"] <= cur["start"] <= acc["end"] + t


def r_start_thr(t):
    return lambda acc, cur, comps: acc["start"] - t <= cur["end"] + 1 <= acc["end"] + 1


def r_any_thr(t):
    return lambda acc, cur, comps: (acc["start"] - t <= cur["end"] + 1 <= acc["end"] + 1) or (
        acc["start"] <= cur["start"] <= acc["end"] + t)


def r_max3(acc, cur, comps):
    return len(comps) < 3


def r_same_source(acc, cur, comps):
    return acc["source"].split(",")[0] == cur["source"] or acc is cur


CRITERIA = {
    "default": (["seqid", "overlap_end_inclusive", "strand", "feature_type"], [r_seqid, r_end_incl, r_strand, r_type]),
    "exact": (["seqid", "exact_coordinates_only", "strand", "feature_type"], [r_seqid, r_exact, r_strand, r_type]),
    "any": (["seqid", "overlap_any_inclusive"], [r_seqid, r_any_incl]),
    "start_incl": (["seqid", "overlap_start_inclusive", "strand"], [r_seqid, r_start_incl, r_strand]),
    "end_thr0": (["seqid", ("overlap_end_threshold", 0)], [r_seqid, r_end_thr(0)]),
    "end_thr2": (["seqid", ("overlap_end_threshold", 2), "feature_type"], [r_seqid, r_end_thr(2), r_type]),
    "any_thr1": (["seqid", ("overlap_any_threshold", 1), "strand"], [r_seqid, r_any_thr(1), r_strand]),
    "any_thr3": (["seqid", ("overlap_any_threshold", 3)], [r_seqid, r_any_thr(3)]),
    "start_thr2": (["seqid", ("overlap_start_threshold", 2)], [r_seqid, r_start_thr(2)]),
    "overlap_only": (["overlap_end_inclusive"], [r_end_incl]),
    "custom_max3": (["seqid", "overlap_end_inclusive", "CUSTOM:max3"], [r_seqid, r_end_incl, r_max3]),
    "single_callable": ("overlap_end_inclusive", [r_end_incl]),
    "empty": ([], []),  # no criterion can reject: everything joins one run
}


def lib_criteria(name):
    from gffutils import merge_criteria as mc

    spec = CRITERIA[name][0]

    def one(x):
        if isinstance(x, tuple):
            return getattr(mc, x[0])(x[1])
        if x == "CUSTOM:max3":
            return lambda acc, cur, comps: len(comps) < 3
        return getattr(mc, x)

    if isinstance(spec, str):
        return one(spec)  # a bare callable instead of a list
    return [one(x) for x in spec]


def ref_merge(feats, crits):
    """-> list of runs (lists of input indices) in output order, with the accumulated extent."""
    out = []
    acc = None
    comps = []
    for i, f in enumerate(feats):
        if acc is None:
            acc = dict(f)
            comps = [i]
            continue
        if all(c(acc, f, [feats[j] for j in comps]) for c in crits):
            comps.append(i)
            if f["seqid"] not in acc["seqid"].split(","):
                acc["seqid"] += "," + f["seqid"]
            if f["strand"] != acc["strand"]:
                acc["strand"] = "."
            if f["ft"] != acc["ft"]:
                acc["ft"] = "sequence_feature"
            acc["start"] = min(acc["start"], f["start"])
            acc["end"] = max(acc["end"], f["end"])
        else:
            out.append((comps, acc))
            acc = dict(f)
            comps = [i]
    if acc is not None:
        out.append((comps, acc))
    return out


def sweep_runs(feats):
    """Independent: maximal runs of overlapping-or-adjacent intervals of a start-ordered list
    on one seqid/strand/type -> list of (start, end, members)."""
    runs = []
    for i, f in enumerate(feats):
        if runs and f["start"] <= runs[-1][1] + 1:
            runs[-1][1] = max(runs[-1][1], f["end"])
            runs[-1][2].append(i)
        else:
            runs.append([f["start"], f["end"], [i]])
    return runs


def make_features(specs):
    from gffutils.feature import Feature

    out = []
    for i, s in enumerate(specs):
        out.append(Feature(seqid=s["seqid"], source=s.get("source", "src"), featuretype=s["ft"], start=s["start"], end=s["end"],
                           score=".", strand=s["strand"], frame=s.get("frame", "."), attributes={"ID": ["in%d" % i]}, id="in%d" % i,
                           extra=list(s.get("extra") or [])))
    return out


def snapshot_outputs(outs):
    """Copy what matters of merge() outputs at once: a later merge() re-assigns .children on the same objects."""
    snap = []
    for o in outs:
        snap.append({"obj": o, "children": list(getattr(o, "children", ()) or ()), "start": o.start, "end": o.end,
                     "seqid": o.seqid, "strand": o.strand, "ft": o.featuretype, "id": o.id, "source": o.source})
    return snap


def compare_merge(db, specs, feats, cname, what="merge", crit_form="list"):
    """Run db.merge on feats and compare with the reference; -> (Failure | None, outputs snapshot)."""
    before = [str(f) for f in feats]
    crit = lib_criteria(cname)
    if isinstance(crit, list) and crit_form != "list":
        # any iterable of callbacks is accepted, also one that can be walked only once
        crit = {"tuple": tuple(crit), "generator": (c for c in crit), "iter": iter(crit)}[crit_form]
    outs = snapshot_outputs(list(db.merge(feats, merge_criteria=crit)))
    ref = ref_merge(specs, CRITERIA[cname][1])
    ident = dict((id(f), i) for i, f in enumerate(feats))
    seen = {}
    runs = []
    for k, o in enumerate(outs):
        if o["children"]:
            members = []
            for c in o["children"]:
                if id(c) not in ident:
                    return Failure("%s[%s]: output %d has a child that is not one of the inputs" % (what, cname, k), sig={"kind": "partition"}), outs
                members.append(ident[id(c)])
            if len(members) < 2:
                return Failure("%s[%s]: merged output with %d child" % (what, cname, len(members)), sig={"kind": "partition"}), outs
            if id(o["obj"]) in ident:
                return Failure("%s[%s]: a merged output is one of the input objects" % (what, cname), sig={"kind": "partition"}), outs
        else:
            if id(o["obj"]) not in ident:
                return Failure("%s[%s]: output %d without children is not an input object" % (what, cname, k), sig={"kind": "partition"}), outs
            members = [ident[id(o["obj"])]]
        for m in members:
            if m in seen:
                return Failure("%s[%s]: input %d appears in outputs %d and %d" % (what, cname, m, seen[m], k), sig={"kind": "partition"}), outs
            seen[m] = k
        runs.append(members)
    if len(seen) != len(feats):
        return Failure("%s[%s]: inputs %r are in no output" % (what, cname, sorted(set(range(len(feats))) - set(seen))),
                       sig={"kind": "partition"}), outs
    if runs != [r[0] for r in ref]:
        return Failure("%s[%s] on %r: runs %r, reference %r" % (what, cname, [(s["start"], s["end"]) for s in specs], runs, [r[0] for r in ref]),
                       sig={"kind": "runs", "criteria": cname}), outs
    ids = []
    for o, (members, acc) in zip(outs, ref):
        if len(members) >= 2:
            lo = min(specs[m]["start"] for m in members)
            hi = max(specs[m]["end"] for m in members)
            if (o["start"], o["end"]) != (lo, hi):
                return Failure("%s[%s]: merged output spans %d..%d, its children span %d..%d" % (what, cname, o["start"], o["end"], lo, hi),
                               sig={"kind": "extent", "criteria": cname}), outs
            if (o["seqid"], o["strand"], o["ft"]) != (acc["seqid"], acc["strand"], acc["ft"]):
                return Failure("%s[%s]: merged output is (%s, %s, %s), expected (%s, %s, %s)"
                               % (what, cname, o["seqid"], o["strand"], o["ft"], acc["seqid"], acc["strand"], acc["ft"]),
                               sig={"kind": "ambiguous-fields"}), outs
            ids.append(o["id"])
            if o["id"] is None or o["id"] in ("in%d" % i for i in range(len(feats))):
                return Failure("%s[%s]: merged output has id %r" % (what, cname, o["id"]), sig={"kind": "ids"}), outs
    if len(set(ids)) != len(ids):
        return Failure("%s[%s]: merged outputs share ids %r" % (what, cname, ids), sig={"kind": "ids"}), outs
    if [str(f) for f in feats] != before:
        return Failure("%s[%s] modified its inputs" % (what, cname), sig={"kind": "inputs-modified"}), outs
    return None, outs


_DB = {}


def tiny_db():
    import os

    import gffutils

    if _DB.get("pid") != os.getpid():  # never share a connection across fork
        _DB.clear()
        _DB["pid"] = os.getpid()
    if "db" not in _DB:
        _DB["db"] = gffutils.create_db("chr9\t.\tgene\t1\t2\t.\t+\t.\tID=only\n", ":memory:", from_string=True)
        _DB["snap"] = dbsnap.snapshot(_DB["db"])
    return _DB["db"]


class ExhaustiveLeg(object):
    kind = "custom"
    name = "exhaustive"
    budget = {"quick": (16, 0), "thorough": (16, 0)}
    maxn = {"quick": 3, "thorough": 4}
    sets = ["default", "exact", "any", "start_incl", "end_thr0", "end_thr2", "any_thr1", "any_thr3", "start_thr2"]

    def classify(self, case):
        return True, []

    def check(self, case, ctx):
        specs = [{"seqid": "chr1", "ft": "exon", "strand": "+", "start": a, "end": b} for a, b in case["intervals"]]
        db = tiny_db()
        f, _ = compare_merge(db, specs, make_features(specs), case["criteria"])
        return f

    def run(self, rec, tier, seed, shard, nshards, deadline):
        import time

        db = tiny_db()
        ivs = [(a, b) for a in range(1, 9) for b in range(a, 9)]
        n = nt = 0
        k = 0
        samples = []
        complete = True
        for size in range(0, self.maxn[tier] + 1):
            for combo in itertools.combinations_with_replacement(ivs, size):
                k += 1
                if k % nshards != shard:
                    continue
                orders = [list(combo)]
                alt = sorted(combo, key=lambda t: (t[0], -t[1]))
                if alt != orders[0]:
                    orders.append(alt)
                for order in orders:
                    specs = [{"seqid": "chr1", "ft": "exon", "strand": "+", "start": a, "end": b} for a, b in order]
                    for cname in self.sets:
                        feats = make_features(specs)
                        f, outs = compare_merge(db, specs, feats, cname)
                        n += 1
                        if f is None and cname == "default":
                            # independent sweep: extents are the maximal runs
                            sw = sweep_runs(specs)
                            got = [(o["start"], o["end"]) for o in outs]
                            if got != [(r[0], r[1]) for r in sw]:
                                f = Failure("merge[default] on %r: extents %r, maximal runs of overlapping-or-adjacent intervals %r"
                                            % (order, got, [(r[0], r[1]) for r in sw]), sig={"kind": "union"})
                        if f is not None:
                            rec.count_bulk(n, nt)
                            rec.report({"intervals": [list(t) for t in order], "criteria": cname}, f)
                            return
                        sizes = [len(o["children"]) for o in outs]
                        if any(s >= 2 for s in sizes) and any(s == 0 for s in sizes):
                            nt += 1
                            if len(samples) < 3 and k % 211 == shard:
                                samples.append({"intervals": [list(t) for t in order], "criteria": cname})
                if (k & 255) == 0 and time.monotonic() > deadline:
                    complete = False
                    break
            if not complete:
                break
        rec.count_bulk(n, nt, labels={"merge calls": n}, samples=samples)
        rec.exhaustive = complete
        if not complete:
            rec.skipped_after_budget += 1
        if dbsnap.snapshot(db) != _DB["snap"]:
            rec.report({"intervals": [], "criteria": "default"}, Failure("merge() modified the database", sig={"kind": "db-modified"}))
        rec.notes.append("all multisets of <= %d intervals over positions 1..8 (both tie orders) x %d criteria sets"
                         % (self.maxn[tier], len(self.sets)))


class RandomLeg(object):
    kind = "hyp"
    name = "random"
    budget = {"quick": (8, 800), "thorough": (16, 15000)}

    def strategy(self):
        from hypothesis import strategies as st

        @st.composite
        def case(draw):
            n = draw(st.integers(1, 12))
            specs = []
            for i in range(n):
                s = draw(st.integers(1, 60))
                specs.append({"seqid": draw(st.sampled_from(["chr1", "chr1", "chr2"])), "ft": draw(st.sampled_from(["exon", "exon", "CDS"])),
                              "strand": draw(st.sampled_from(["+", "+", "-"])), "start": s, "end": s + draw(st.integers(0, 15)),
                              "source": draw(st.sampled_from(["a", "b"])), "frame": draw(st.sampled_from([".", "0"])),
                              "extra": draw(st.sampled_from([[], [], [], ["x"], ["y", "x"], ["z"]]))})
            order = draw(st.sampled_from(["grouped", "start", "arbitrary"]))
            if order == "grouped":
                specs.sort(key=lambda s: (s["seqid"], s["ft"], s["strand"], s["start"]))
            elif order == "start":
                specs.sort(key=lambda s: s["start"])
            return {"specs": specs, "order": order, "criteria": draw(st.sampled_from(sorted(CRITERIA))),
                    "second": draw(st.sampled_from(sorted(CRITERIA))), "generator": draw(st.booleans()),
                    "crit_form": draw(st.sampled_from(["list", "list", "tuple", "generator", "iter"]))}

        return case()

    def classify(self, case):
        ref = ref_merge(case["specs"], CRITERIA[case["criteria"]][1])
        sizes = [len(r[0]) for r in ref]
        nt = any(s >= 2 for s in sizes) and any(s == 1 for s in sizes)
        return nt, ["order=" + case["order"], "criteria=" + case["criteria"]] + (["has-run"] if any(s >= 2 for s in sizes) else [])

    def check(self, case, ctx):
        db = tiny_db()
        specs = case["specs"]
        feats = make_features(specs)
        f, outs1 = compare_merge(db, specs, feats, case["criteria"], crit_form=case.get("crit_form", "list"))
        if f:
            return f
        if case["order"] == "grouped" and case["criteria"] == "default":
            # maximal runs per (seqid, type, strand) group
            want = []
            for key, grp in itertools.groupby(specs, key=lambda s: (s["seqid"], s["ft"], s["strand"])):
                want += [(r[0], r[1]) for r in sweep_runs(list(grp))]
            got = [(o["start"], o["end"]) for o in outs1]
            if got != want:
                return Failure("default criteria on grouped input: extents %r, maximal runs %r" % (got, want), sig={"kind": "union"})
        # the same objects again: same criteria -> same result; then other criteria
        f, outs2 = compare_merge(db, specs, feats, case["criteria"], what="second merge of the same objects")
        if f:
            return f
        shape = lambda outs: [(o["start"], o["end"], len(o["children"])) for o in outs]
        if shape(outs1) != shape(outs2):
            return Failure("merging the same objects again gives %r, first time %r" % (shape(outs2), shape(outs1)), sig={"kind": "repeat"})
        ids1 = [o["id"] for o in outs1 if o["children"]]
        ids2 = [o["id"] for o in outs2 if o["children"]]
        if set(ids1) & set(ids2):
            return Failure("ids of merged outputs are reused between calls: %r" % sorted(set(ids1) & set(ids2)), sig={"kind": "ids"})
        f, outs3 = compare_merge(db, specs, feats, case["second"], what="merge of the same objects under other criteria")
        if f:
            return f
        # outputs merged again (outputs are ordinary features)
        objs = [o["obj"] for o in outs3]
        specs2 = [{"seqid": o["seqid"], "ft": o["ft"], "strand": o["strand"], "start": o["start"], "end": o["end"],
                   "source": o["source"]} for o in outs3]
        for i, o in enumerate(objs):
            o.id = "in%d" % i
        f, _ = compare_merge(db, specs2, objs, case["criteria"], what="merge of merged outputs")
        if f:
            return f
        if dbsnap.snapshot(db) != _DB["snap"]:
            return Failure("merge() modified the database", sig={"kind": "db-modified"})
        return None


class DbLeg(object):
    kind = "hyp"
    name = "db"
    budget = {"quick": (8, 80), "thorough": (16, 1500)}

    def strategy(self):
        from hypothesis import strategies as st

        @st.composite
        def case(draw):
            n = draw(st.integers(1, 10))
            specs = []
            for i in range(n):
                s = draw(st.integers(1, 60))
                specs.append({"seqid": draw(st.sampled_from(["chr1", "chr1", "chr2"])), "ft": draw(st.sampled_from(["exon", "exon", "CDS"])),
                              "strand": draw(st.sampled_from(["+", "+", "-"])), "start": s, "end": s + draw(st.integers(0, 15))})
            off = draw(st.sampled_from([0, 0, 131072 - 20, 131072 - 5]))  # runs may grow across a 128 kb bin edge
            for sp in specs:
                sp["start"] += off
                sp["end"] += off
            return {"specs": specs, "exclude": draw(st.booleans()), "parent_strand": draw(st.sampled_from(["+", "-"])), "offset": off,
                    "empty_groups": draw(st.sampled_from([False, False, True])), "file_db": draw(st.booleans()),
                    "store_as_you_go": draw(st.booleans())}

        return case()

    def classify(self, case):
        specs = sorted(case["specs"], key=lambda s: (s["seqid"], s["ft"], s["strand"], s["start"]))
        ref = ref_merge(specs, CRITERIA["default"][1])
        sizes = [len(r[0]) for r in ref]
        return any(s >= 2 for s in sizes) and any(s == 1 for s in sizes), ["exclude_components" if case["exclude"] else "keep_components"]

    def check(self, case, ctx):
        import gffutils

        specs = case["specs"]
        # children_bp: one transcript with the chr1 / parent-strand exons as children
        kids = [s for s in specs if s["seqid"] == "chr1" and s["strand"] == case["parent_strand"] and s["ft"] == "exon"]
        off = case.get("offset", 0)
        lines = ["chr1\tsrc\tmRNA\t%d\t%d\t.\t%s\t.\tID=tx" % (1 + off, 100 + off, case["parent_strand"])]
        for i, s in enumerate(specs):
            par = ";Parent=tx" if s in kids else ""
            lines.append("\t".join([s["seqid"], "src", s["ft"], str(s["start"]), str(s["end"]), ".", s["strand"], ".", "ID=f%d%s" % (i, par)]))
        dbfn = ctx.path("m.db") if case.get("file_db") else ":memory:"
        db = gffutils.create_db("\n".join(lines) + "\n", dbfn, from_string=True)
        before = dbsnap.snapshot(db)
        total = sum(s["end"] - s["start"] + 1 for s in kids)
        covered = set()
        for s in kids:
            covered.update(range(s["start"], s["end"] + 1))
        bp = db.children_bp("tx", child_featuretype="exon")
        if bp != total:
            return Failure("children_bp = %r, summed child lengths = %d" % (bp, total), sig={"kind": "children_bp"})
        bpm = db.children_bp(db["tx"], child_featuretype="exon", merge=True)
        if bpm != len(covered):
            return Failure("children_bp(merge=True) = %r, size of the union = %d (children %r)"
                           % (bpm, len(covered), [(s["start"], s["end"]) for s in kids]), sig={"kind": "children_bp-union"})
        if dbsnap.snapshot(db) != before:
            return Failure("children_bp modified the database", sig={"kind": "db-modified"})
        # merge_all over the non-transcript features
        rows = [dict(s, id="f%d" % i) for i, s in enumerate(specs)]
        rows.append({"seqid": "chr1", "ft": "mRNA", "strand": case["parent_strand"], "start": 1 + off, "end": 100 + off, "id": "tx"})
        rows.sort(key=lambda s: (s["seqid"].encode(), s["ft"].encode(), s["strand"].encode(), s["start"]))
        ref = ref_merge(rows, CRITERIA["default"][1])
        # rows with equal sort keys may come in either order: only assert when the run structure does not depend on it
        keys = [(s["seqid"], s["ft"], s["strand"], s["start"]) for s in rows]
        ambiguous = len(set(keys)) != len(keys)
        mkw = {}
        if case.get("empty_groups"):
            mkw["featuretypes_groups"] = ()  # documented: "can't be empty" -> treated as (None,), i.e. all features
        res = db.merge_all(exclude_components=case["exclude"], **mkw)
        after = dbsnap.snapshot(db)
        if case.get("file_db"):
            # what merge_all stored is there for a second connection as well
            other = gffutils.FeatureDB(dbfn)
            seen = dbsnap.snapshot(other)
            other.conn.close()
            if seen["features"] != after["features"] or seen["relations"] != after["relations"]:
                return Failure("merge_all: a second connection to the file does not see what was stored: %s" % dbsnap.diff(after, seen),
                               sig={"kind": "merge_all-not-committed"})
        multi = [(members, acc) for members, acc in ref if len(members) >= 2]
        if len(res) != len(multi):
            return Failure("merge_all returned %d merged features, expected %d" % (len(res), len(multi)), sig={"kind": "merge_all-count"})
        old_ids = set(r["id"] for r in before["features"])
        new_rows = [r for r in after["features"] if r["id"] not in old_ids]
        want_ext = sorted((acc["seqid"], acc["start"], acc["end"], acc["ft"], acc["strand"]) for _, acc in multi)
        got_ext = sorted((r["cols"][0], r["cols"][3], r["cols"][4], r["cols"][2], r["cols"][6]) for r in new_rows)
        if got_ext != want_ext:
            return Failure("merge_all stored new features %r, expected one per multi-member run %r" % (got_ext, want_ext),
                           sig={"kind": "merge_all-rows"})
        if len(set(r["id"] for r in new_rows)) != len(new_rows):
            return Failure("merge_all: new features share ids", sig={"kind": "ids"})
        import gffutils.bins as _bins

        for r in new_rows:
            if r["bin"] != _bins.bins(r["cols"][3], r["cols"][4]):
                return Failure("merge_all stored %r spanning %d..%d with bin %r, bins() gives %r"
                               % (r["id"], r["cols"][3], r["cols"][4], r["bin"], _bins.bins(r["cols"][3], r["cols"][4])),
                               sig={"kind": "merge_all-bin"})
        member_ids = set(rows[m]["id"] for members, _ in multi for m in members)
        kept = set(r["id"] for r in after["features"]) & old_ids
        if case["exclude"]:
            if kept != old_ids - member_ids:
                return Failure("merge_all(exclude_components=True): remaining old features %r, expected %r"
                               % (sorted(kept), sorted(old_ids - member_ids)), sig={"kind": "merge_all-exclude"})
            stale = [tuple(r) for r in after["relations"] if r[0] in member_ids or r[1] in member_ids]
            if stale:
                return Failure("merge_all(exclude_components=True) deleted the members but left relations naming them: %r" % stale[:4],
                               sig={"kind": "merge_all-exclude-relations"})
        else:
            if kept != old_ids:
                return Failure("merge_all(exclude_components=False) removed features %r" % sorted(old_ids - kept), sig={"kind": "merge_all-keep"})
            new_rel = set(tuple(r) for r in after["relations"]) - set(tuple(r) for r in before["relations"])
            by_ext = dict(((r["cols"][0], r["cols"][3], r["cols"][4], r["cols"][2], r["cols"][6]), r["id"]) for r in new_rows)
            want_rel = set()
            if not ambiguous or True:
                for members, acc in multi:
                    pid = by_ext.get((acc["seqid"], acc["start"], acc["end"], acc["ft"], acc["strand"]))
                    for m in members:
                        want_rel.add((pid, rows[m]["id"], 1))
            if len(by_ext) == len(new_rows) and new_rel != want_rel:
                return Failure("merge_all: new relations %r, expected level-1 links %r" % (sorted(new_rel), sorted(want_rel)),
                               sig={"kind": "merge_all-relations"})
            # members keep their columns
            old = dict((r["id"], r) for r in before["features"])
            for r in after["features"]:
                if r["id"] in old and r["cols"] != old[r["id"]]["cols"]:
                    return Failure("merge_all changed the columns of %r" % r["id"], sig={"kind": "merge_all-member-cols"})
        if case.get("store_as_you_go"):
            # merged features written back one at a time while the merge() generator is still being consumed
            ordered = sorted(specs, key=lambda s: (s["seqid"], s["ft"], s["strand"], s["start"]))
            handed = []
            for o in db.merge(make_features(ordered)):
                if getattr(o, "children", None):
                    handed.append(o.id)
                    db.update([o], make_backup=False)
            if len(set(handed)) != len(handed):
                return Failure("one merge() call handed out an id twice: %r" % handed, sig={"kind": "ids"})
            after = dbsnap.snapshot(db)
            missing = [i for i in handed if i not in set(r["id"] for r in after["features"])]
            if missing:
                return Failure("merged features written back with update() are not stored under their ids: %r" % missing,
                               sig={"kind": "ids-written-back"})
            if len(handed) >= 2:
                ctx.count("merge() generators interleaved with >= 2 updates")
        # a later merge() on the same handle hands out ids that are not stored yet
        stored_ids = set(r["id"] for r in after["features"])
        later_in = sorted(specs, key=lambda s: (s["seqid"], s["ft"], s["strand"], s["start"])) if case.get("store_as_you_go") else specs
        later = [o for o in db.merge(make_features(later_in)) if getattr(o, "children", None)]
        clash = [o.id for o in later if o.id in stored_ids]
        if clash:
            return Failure("merge() after merge_all() on the same handle hands out ids that are already stored: %r" % clash,
                           sig={"kind": "ids-after-merge_all"})
        # passes that are not consumed to the end (abandoned after k outputs, or two generators consumed in turns) still
        # use up the ids they handed out: a later pass on the same handle does not hand them out again
        ordered = sorted(specs, key=lambda s: (s["seqid"], s["ft"], s["strand"], s["start"]))
        handed = [o.id for o in later]
        g1, g2 = db.merge(make_features(ordered)), db.merge(make_features(ordered))
        live = [g1, g2]
        taken = 0
        while live and taken < 3:
            for g in list(live):
                try:
                    o = next(g)
                except StopIteration:
                    live.remove(g)
                    continue
                if getattr(o, "children", None):
                    handed.append(o.id)
                    taken += 1
        abandoned = bool(live)
        del g1, g2, live
        handed.extend(o.id for o in db.merge(make_features(ordered)) if getattr(o, "children", None))
        if len(set(handed)) != len(handed):
            return Failure("merge() passes on one handle (two consumed in turns%s, then a complete one) handed out an id twice: %r"
                           % (" and abandoned" if abandoned else "", handed), sig={"kind": "ids-across-passes"})
        if [i for i in handed if i in stored_ids]:
            return Failure("merge() hands out ids that are already stored: %r" % [i for i in handed if i in stored_ids],
                           sig={"kind": "ids-after-merge_all"})
        if abandoned and taken >= 1:
            ctx.count("merge() passes abandoned after >= 1 merged output, followed by another pass")
        return None


LEGS = [ExhaustiveLeg(), RandomLeg(), DbLeg()]
