"""
C01  Import fidelity: every input line is stored once and comes back unchanged.

Oracle: the text model's records (inverse of rendering).  Clauses, per DESIGN C01:
 (0) always: row count/order, the 8 columns and extra columns;
 (1) ordered attribute keys/values, when the dialect-observation model says the
     inspected window recovers what this line needs (A.2);
 (2) byte identity of the printed line under the further A.2 conditions;
 (3) same content after closing and reopening the file database;
 (4) re-importing the printed lines gives an equal snapshot.
"""
import re

from gfv import dbsnap
from gfv import textmodel as tm
from gfv.core import Failure

PROP = "C01"
RULE = (
    "files of 1-12 feature lines rendered from the text model in one dialect (3 styles x 3 separators x trailing x "
    "comma-list/repeated keys), reserved-character-rich and arbitrary-Unicode values, flags, extra columns, '.' "
    "coordinates, optional leading directives; checklines in {0,1,2,3,10,n-1,n,n+2}; file and :memory: databases; all five "
    "merge strategies with unique ids and create_unique with duplicate ids; keep_order / sort_attribute_values; GTF with "
    "inference on and off. Non-trivial = at least 2 lines and one of: multi-valued attribute, percent-escape, extra "
    "column, '.' coordinate, more lines than checklines+1, non-default separator. Distinct by hash of the case."
)
ASSUMPTIONS = [
    "decoded values have no edge whitespace and (unquoted styles) no edge double quote; raw % only as upper-case escapes (DESIGN section 3)",
    "attribute equality and byte identity are asserted only when the inspected window (checklines+1 and checklines lines agree) "
    "makes the needed dialect entries observable; other lines are checked on columns/extras only and counted",
    "explicit ids never have the shape <featuretype>_<digits> / <id>_<digits> of generated names; id attributes are single-valued",
    "GTF files with inference enabled have numeric exon coordinates and no explicit gene/transcript lines (C03 covers those)",
]

CHECKLINES = [0, 1, 2, 3, 10]


_PROCESS = {"printed": False}  # per process: has any case printed a feature here yet?


def render_file(case):
    d = case["dialect"]
    out = list(case.get("directives") or [])
    out += [tm.render_line(r, d) for r in case["records"]]
    text = "\n".join(out)
    if case.get("final_newline", True):
        text += "\n"
    return text


def reference_ids(case):
    """Ids per database-ids.rst for the default id_spec of the detected format."""
    d = case["dialect"]
    counters = {}
    seen = {}
    ids = []
    for r in case["records"]:
        ft = r["cols"][2]
        attrs = tm.attrs_dict(r)
        key = None
        if d["style"] != "gtf":
            if attrs.get("ID"):
                key = attrs["ID"][0]
        else:
            spec = {"gene": "gene_id", "transcript": "transcript_id"}.get(ft)
            if spec and attrs.get(spec):
                key = attrs[spec][0]
        if key is None:
            counters[ft] = counters.get(ft, 0) + 1
            key = "%s_%d" % (ft, counters[ft])
        if key in seen:
            counters[key] = counters.get(key, 0) + 1
            new = "%s_%d" % (key, counters[key])
            ids.append(new)
            seen[new] = True
        else:
            seen[key] = True
            ids.append(key)
    return ids


def _domain_ok(case):
    """Exclude id shapes that collide with generated names (DESIGN section 3)."""
    fts = set(r["cols"][2] for r in case["records"])
    explicit = []
    for r in case["records"]:
        a = tm.attrs_dict(r)
        for k in ("ID", "gene_id", "transcript_id"):
            if a.get(k):
                explicit.append(a[k][0])
    for v in explicit:
        if re.match(r"^.*_\d+$", v, re.S):
            return False
        if v in fts:
            return False
    ids = reference_ids(case)
    if case["merge_strategy"] != "create_unique" and len(set(ids)) != len(ids):
        return False
    return len(set(ids)) == len(ids)


class FilesLeg(object):
    kind = "hyp"
    name = "files"
    budget = {"quick": (8, 600), "thorough": (16, 6000)}

    def strategy(self):
        S = tm.strategies()
        st = S.st
        idpool = st.one_of(
            st.sampled_from(["g", "mRNA", "x y", "a:b", "é", "A-1"]),
            S.value_escaped.filter(lambda v: len(v) <= 6),
        )

        @st.composite
        def case(draw):
            d = draw(S.dialect)
            style = d["style"]
            n = draw(st.integers(1, 12))
            strategy_ = draw(st.sampled_from(["error", "error", "create_unique", "create_unique", "merge", "warning", "replace"]))
            dup = strategy_ == "create_unique" and draw(st.booleans())
            gtf_infer = style == "gtf" and draw(st.booleans())
            recs = []
            idvals = []
            for i in range(n):
                rich = draw(st.integers(0, 9)) < 8
                r = draw(S.record(style, min_n=2 if rich else 0, max_n=4, allow_dot=not gtf_infer, empty_items=not d["repeated"],
                                  keys=st.one_of(S.word_key, st.sampled_from(["Note", "k2"]))))
                # never let generated keys clash with the id-bearing ones
                r["attrs"] = [a for a in r["attrs"] if a[0] not in ("ID", "gene_id", "transcript_id")]
                if r["attrs"] and (not r["attrs"][0][1] or not re.fullmatch(r"\w+", r["attrs"][0][0])):
                    # the grammar: the first attribute is a key=value pair with a \w+ key
                    r["attrs"] = [["lead", [draw(S.value_for(style))]]] + [a for a in r["attrs"] if a[0] != "lead"]
                if style == "gtf":
                    if r["cols"][2] in ("gene", "transcript"):
                        r["cols"][2] = "CDS"
                    if draw(st.integers(0, 3)) > 0:
                        g = "G" + draw(st.sampled_from(["1", "2", "x"]))
                        t = g + ".t" + draw(st.sampled_from(["1", "2"]))
                        r["attrs"] = [["gene_id", [g]], ["transcript_id", [t]]] + r["attrs"]
                        if draw(st.booleans()):
                            r["cols"][2] = "exon"
                else:
                    if draw(st.integers(0, 9)) < 7:
                        if dup and idvals and draw(st.integers(0, 2)) == 0:
                            v = draw(st.sampled_from(idvals))
                        else:
                            v = draw(idpool) + ("#%d" % i)
                        idvals.append(v)
                        r["attrs"] = [["ID", [v]]] + r["attrs"]
                if d["repeated"] and i == 0 and len(r["attrs"]) >= 2 and len(r["attrs"][-1][1]) == 1:
                    # make the repeated-keys convention observable in the window more often
                    r["attrs"][-1][1] = r["attrs"][-1][1] * 1 + draw(st.lists(S.value_for(style), min_size=1, max_size=2))
                recs.append(r)
            cl = draw(st.sampled_from(CHECKLINES + [max(0, n - 1), n, n + 2]))
            ndir = draw(st.sampled_from([0, 0, 1, 2]))
            directives = ["##gff-version 3", "##sequence-region chr1 1 1000"][:ndir]
            return {
                "dialect": d,
                "records": recs,
                "directives": directives,
                "checklines": cl,
                "memory": draw(st.booleans()),
                "merge_strategy": strategy_,
                "keep_order": draw(st.integers(0, 4)) > 0,
                "sort_attribute_values": draw(st.integers(0, 6)) == 0,
                "gtf_infer": gtf_infer,
                "final_newline": draw(st.integers(0, 5)) > 0,
                "input": draw(st.sampled_from(["plain", "plain", "plain", "crlf", "gz-crlf", "url", "url-gz"])),
                "toggled_before": draw(st.integers(0, 9)) == 0,
            }

        return case().filter(_domain_ok)

    def classify(self, case):
        d = case["dialect"]
        recs = case["records"]
        n = len(recs)
        multi = any(len(v) > 1 for r in recs for _, v in r["attrs"])
        esc = d["style"] != "gtf" and any("%" in tm.render_attrs(r["attrs"], d) for r in recs)
        extras = any(r["extras"] for r in recs)
        dot = any("." in (r["cols"][3], r["cols"][4]) for r in recs)
        beyond = n > case["checklines"] + 1
        nt = n >= 2 and (multi or esc or extras or dot or beyond or d["sep"] != ";")
        labels = ["style=" + d["style"], "strategy=" + case["merge_strategy"], "memory" if case["memory"] else "file"]
        if beyond:
            labels.append("lines-beyond-window")
        if multi:
            labels.append("multi-valued")
        if esc:
            labels.append("escape")
        if case["gtf_infer"]:
            labels.append("gtf-infer")
        if len(set(reference_ids(case))) == n and any(
            re.search(r"_\d+$", i) for i in reference_ids(case)
        ):
            labels.append("auto-or-unique-ids")
        return nt, labels

    def check(self, case, ctx):
        import gffutils

        d = case["dialect"]
        recs = case["records"]
        n = len(recs)
        text = render_file(case)
        path = ctx.write("in.gff", text)
        if case.get("input") == "gz-crlf":
            import gzip

            path = ctx.path("in.gff.gz")
            with gzip.open(path, "wb") as fh:
                fh.write(text.replace("\n", "\r\n").encode("utf-8"))
        elif case.get("input") == "crlf":
            path = ctx.write("in_crlf.gff", text.replace("\n", "\r\n"))
        elif case.get("input") in ("url", "url-gz"):
            # the file named by a URL, with an empty line after its first feature line (empty lines are skipped)
            parts = text.split("\n")
            k = len(case["directives"]) + 1
            text_b = "\n".join(parts[:k] + [""] + parts[k:]) if n >= 2 else text
            if case["input"] == "url-gz":
                import gzip

                path = ctx.path("in_url.gff.gz")
                with gzip.open(path, "wb") as fh:
                    fh.write(text_b.encode("utf-8"))
            else:
                path = ctx.write("in_url.gff", text_b)
            path = "file://" + path
        kwargs = dict(
            checklines=case["checklines"],
            merge_strategy=case["merge_strategy"],
            keep_order=case["keep_order"],
            sort_attribute_values=case["sort_attribute_values"],
            verbose=False,
        )
        if d["style"] == "gtf" and not case["gtf_infer"]:
            kwargs.update(disable_infer_genes=True, disable_infer_transcripts=True)
        dbpath = ":memory:" if case["memory"] else ctx.path("out.db")
        if case.get("toggled_before") or not _PROCESS["printed"]:
            # the percent-escape switch was on for an earlier print in this process and is off again.  Always done by the
            # first case a process runs (before anything else has been printed there), with every reserved character.
            from gffutils import constants
            from gffutils.feature import feature_from_line as _ffl

            every = "".join("%%%02X" % c for c in list(range(0, 32)) + [127] + [ord(x) for x in ";=%&,"])
            constants.ignore_url_escape_characters = True
            try:
                str(_ffl("chr1\t.\tgene\t1\t2\t.\t+\t.\tID=sw;Note=" + every))
                for l_ in [tm.render_line(r, d) for r in recs][:3]:
                    str(_ffl(l_))
            finally:
                constants.ignore_url_escape_characters = False
        _PROCESS["printed"] = True
        db = gffutils.create_db(path, dbpath, **kwargs)

        chosen, stable = tm.window_vote([(r, d) for r in recs], case["checklines"])
        lines = [tm.render_line(r, d) for r in recs]

        def compare(db, what):
            feats = list(db.all_features())
            if case["gtf_infer"]:
                head, tail = feats[:n], feats[n:]
                for f in tail:
                    if f.source != "gffutils_derived" or f.featuretype not in ("gene", "transcript"):
                        return Failure("%s: row beyond the input is not a derived gene/transcript: %r" % (what, str(f)),
                                       sig={"kind": "extra-row"})
            else:
                head = feats
            if len(head) != n:
                return Failure("%s: %d rows for %d input lines" % (what, len(head), n), sig={"kind": "row-count"})
            ids = reference_ids(case)
            n_attr = n_bytes = 0
            prefix_ok = True  # ids depend on how every earlier line was parsed
            for i, (f, r) in enumerate(zip(head, recs)):
                got = [f.seqid, f.source, f.featuretype, f.start, f.end, f.score, f.strand, f.frame]
                exp = tm.expected_cols(r)
                if got != exp:
                    return Failure("%s: row %d columns %r, input %r" % (what, i, got, exp), sig={"kind": "columns"})
                if list(f.extra) != list(r["extras"]):
                    return Failure("%s: row %d extra %r, input %r" % (what, i, f.extra, r["extras"]), sig={"kind": "extras"})
                if not stable:
                    continue
                a_ok, b_ok = tm.line_conditions(r, d, chosen)
                if not a_ok:
                    prefix_ok = False
                    continue
                n_attr += 1
                if prefix_ok and f.id != ids[i]:
                    return Failure("%s: row %d has id %r, expected %r" % (what, i, f.id, ids[i]), sig={"kind": "id"})
                want = tm.attrs_dict(r)
                have = dict((k, list(v)) for k, v in f.attributes.items())
                if case["sort_attribute_values"]:
                    # values are only promised sorted when printed; the stored lists are the input's
                    pass
                if have != want or list(have.keys()) != list(want.keys()):
                    return Failure(
                        "%s: row %d attributes %r, input %r (line %r, dialect chosen %r)"
                        % (what, i, list(have.items()), list(want.items()), lines[i], chosen),
                        sig={"kind": "attributes"},
                    )
                if not case["keep_order"]:
                    b_ok = tm.line_conditions(r, d, dict(chosen, order=[]))[1]
                if case["sort_attribute_values"] and any(
                    list(v) != sorted(v) or [tm.encode_value(x) for x in v] != sorted(tm.encode_value(x) for x in v)
                    for v in want.values()
                ):
                    b_ok = False  # printing sorts the values (whether before or after escaping is not specified)
                if b_ok:
                    n_bytes += 1
                    if str(f) != lines[i]:
                        return Failure("%s: row %d prints %r, input line %r (dialect %r)" % (what, i, str(f), lines[i], chosen),
                                       sig={"kind": "bytes"})
            compare.n_attr, compare.n_bytes = n_attr, n_bytes
            ctx.count("lines compared on columns", n)
            ctx.count("lines compared attribute-for-attribute", n_attr)
            ctx.count("lines compared byte-for-byte", n_bytes)
            return None

        bad = compare(db, "after import")
        if bad:
            return bad
        if stable and tm.lib_dialect(d) == dict((k, v) for k, v in chosen.items() if k != "order"):
            got = dict(db.dialect)
            if got != chosen:
                return Failure("db.dialect %r, the file's dialect is %r" % (got, chosen), sig={"kind": "dialect"})
        if db.directives != [x[2:] for x in case["directives"]]:
            return Failure("directives %r, input %r" % (db.directives, case["directives"]), sig={"kind": "directives"})
        snap1 = dbsnap.snapshot(db)
        printed = [str(f) for f in db.all_features()]
        # a full iteration is not disturbed by other queries made while it is under way, and
        # printing the same objects again gives the same lines
        it = db.all_features()
        got = []
        held = []
        for k, f in enumerate(it):
            got.append(f)
            held.append([(k_, list(v_)) for k_, v_ in f.attributes.items()])
            if k == 0:
                list(db.features_of_type(f.featuretype))
                db[f.id]
            elif k == 1:
                db.count_features_of_type()
                list(db.children(f.id))
        if [str(f) for f in got] != printed:
            return Failure("an iteration interleaved with other queries yields %d lines that differ from a plain iteration (%d lines)"
                           % (len(got), len(printed)), sig={"kind": "interleaved-iteration"})
        if [str(f) for f in got] != printed:
            return Failure("printing the same features twice gives different lines", sig={"kind": "second-print"})
        for f, h in zip(got, held):
            hash(f)
            now = [(k_, list(v_)) for k_, v_ in f.attributes.items()]
            if now != h:
                return Failure("printing / hashing a feature changed its attributes from %r to %r" % (h, now), sig={"kind": "print-mutates"})

        # (3) close and reopen
        if not case["memory"]:
            db.conn.close()
            db2 = gffutils.FeatureDB(dbpath, keep_order=case["keep_order"], sort_attribute_values=case["sort_attribute_values"])
            bad = compare(db2, "after reopening")
            if bad:
                return bad
            snap2 = dbsnap.snapshot(db2)
            dd = dbsnap.diff(snap1, snap2)
            if dd:
                return Failure("snapshot changed by close/reopen: " + dd, sig={"kind": "reopen"})
            if [str(f) for f in db2.all_features()] != printed:
                return Failure("printed lines changed by close/reopen", sig={"kind": "reopen-lines"})
            db2.conn.close()

        # (4) re-import the printed original rows
        # asserted when every line was recovered attribute-for-attribute and the lines the
        # re-import will inspect are printed exactly as they came in (keep_order may move a
        # value-less flag to the front of a later line, which is outside the grammar)
        all_attr_ok = stable and getattr(compare, "n_attr", 0) == n
        w = max(1, case["checklines"] + 1)
        if all_attr_ok and printed[:w] == lines[:w]:
            text2 = "\n".join(case["directives"] + printed[:n]) + "\n"
            path2 = ctx.write("again.gff", text2)
            db3 = gffutils.create_db(path2, ":memory:", **kwargs)
            sv = case["sort_attribute_values"]
            s3 = dbsnap.snapshot(db3, sort_values=sv, sort_keys=True)
            s1 = dbsnap.snapshot(db, sort_values=sv, sort_keys=True) if case["memory"] else dbsnap.snapshot(
                gffutils.FeatureDB(dbpath), sort_values=sv, sort_keys=True)
            keys = ("features", "relations", "directives", "autoincrements")
            dd = dbsnap.diff(s1, s3, keys=keys)
            ctx.count("re-imports compared")
            if dd:
                return Failure("re-importing the printed lines gives a different database: " + dd, sig={"kind": "reimport"})
            if s1["dialect"] != s3["dialect"] and getattr(compare, "n_bytes", 0) == n and case["keep_order"]:
                return Failure("re-import of byte-identical text infers another dialect: %r vs %r" % (s1["dialect"], s3["dialect"]),
                               sig={"kind": "reimport-dialect"})
        return None


LEGS = [FilesLeg()]
