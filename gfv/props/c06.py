"""
C06  Region and limit queries return exactly the overlapping/contained features.

Oracle: brute-force filter of the generated feature list with the statement's predicates.
"""
from gfv.core import Failure

PROP = "C06"
RULE = (
    "databases of 3-25 features on 1-3 seqids with coordinates from a boundary-biased mixture (m*2^(17+3k)+d, d in "
    "-2..2, the same around 2^29, and uniform) and lengths from {1, 2, small, bin size +-1, huge}; 12-20 queries each: "
    "region() in tuple / 'seqid:start-end' / Feature / keyword form, seqid omitted, one-sided, with strand, featuretype "
    "(str or list) and completely_within, and the same intervals as limit= of all_features, features_of_type, children "
    "and parents; half of the cases then add 1-3 features through update() on the same handle (parsed lines, or interfeatures of "
    "two flanking Features; optionally one feature moved by an add_relation child_func) and repeat the queries. Non-trivial query = the answer is a non-empty proper subset, or a coordinate lies within 2 of a bin "
    "edge or at/after 2^29. Cases are databases; distinct non-trivial databases counted by hash (>= 1 non-trivial query)."
)
ASSUMPTIONS = [
    "features and query intervals have integer coordinates with 1 <= start <= end",
    "one-sided queries: features exactly on the bound may go either way (statement)",
    "string-form regions use seqids without ':'",
]

MAXC = 2 ** 29
FTS = ["gene", "exon", "CDS"]
FT_COMMA = "exon,CDS"  # a featuretype is any text: one that contains a comma is one featuretype, not two
SEQIDS = ["chr1", "chr2", "X", "Chr1"]  # seqids are case-sensitive


def _near_edge(p):
    for k in range(5):
        size = 1 << (17 + 3 * k)
        r = p % size
        if r <= 2 or r >= size - 2:
            return True
    return abs(p - MAXC) <= 3


def overlaps(f, s, e):
    return f["start"] <= e and f["end"] >= s


def within(f, s, e):
    return s <= f["start"] and f["end"] <= e


class QueriesLeg(object):
    kind = "hyp"
    name = "queries"
    budget = {"quick": (16, 200), "thorough": (16, 4000)}

    def strategy(self):
        from hypothesis import strategies as st

        boundary = st.builds(
            lambda k, m, d: max(1, m * (1 << (17 + 3 * k)) + d),
            st.integers(0, 4), st.integers(0, 5), st.integers(-2, 2),
        )
        top = st.builds(lambda d: MAXC + d, st.integers(-3, 3))
        coord = st.one_of(boundary, boundary, top, st.integers(1, 1 << 18), st.integers(1, MAXC + 1000))
        length = st.one_of(
            st.sampled_from([0, 1, 2]), st.integers(0, 300),
            st.builds(lambda k, d: (1 << (17 + 3 * k)) + d, st.integers(0, 3), st.integers(-2, 2)),
            st.integers(0, 1 << 27),
        )

        @st.composite
        def interval(draw):
            s = draw(coord)
            return [s, s + draw(length)]

        @st.composite
        def query(draw):
            kind = draw(st.sampled_from(["region", "region", "region", "limit", "limit"]))
            iv = draw(interval())
            q = {"kind": kind, "start": iv[0], "end": iv[1], "seqid": draw(st.sampled_from(SEQIDS)),
                 "within": draw(st.booleans()),
                 "strand": draw(st.sampled_from([None, None, "+", "-", "."])),
                 "featuretype": draw(st.sampled_from([None, None, None, "exon", "exon", ["exon", "CDS"], ["gene"], FT_COMMA]))}
            if kind == "region":
                q["form"] = draw(st.sampled_from(["tuple", "string", "feature", "kw", "kw-noseqid", "kw-start-only", "kw-end-only",
                                                  "string-strand"]))
                q["fstrand"] = draw(st.sampled_from(["+", "-", "."]))
                q["widened"] = draw(st.booleans())
            else:
                q["form"] = draw(st.sampled_from(["tuple", "string"]))
                q["method"] = draw(st.sampled_from(["all_features", "features_of_type", "children", "parents"]))
            return q

        @st.composite
        def case(draw):
            n = draw(st.integers(3, 25))
            feats = []
            for i in range(n):
                iv = draw(interval())
                feats.append({"id": "f%d" % i, "seqid": draw(st.sampled_from(SEQIDS[: draw(st.integers(1, 3))])),
                              "ft": draw(st.sampled_from(FTS + FTS + [FT_COMMA])), "start": iv[0], "end": iv[1],
                              "strand": draw(st.sampled_from(["+", "-", "."])),
                              "parent": i > 0 and draw(st.integers(0, 2)) > 0})
            qs = draw(st.lists(query(), min_size=12, max_size=20))
            # aim some queries at the generated features
            for q in qs:
                if draw(st.integers(0, 2)) == 0:
                    f = feats[draw(st.integers(0, n - 1))]
                    q["seqid"] = f["seqid"]
                    q["start"] = max(1, f["start"] + draw(st.integers(-2, 2)))
                    q["end"] = max(q["start"], f["end"] + draw(st.integers(-2, 2)))
            added = []
            if draw(st.booleans()):
                far = max(f["end"] for f in feats)
                for _ in range(draw(st.integers(1, 3))):
                    iv = draw(interval())
                    if draw(st.booleans()):  # beyond everything stored so far, usually in another bin
                        s0 = far + draw(st.sampled_from([1, 5, 1 << 17, (1 << 20) + 7]))
                        iv = [s0, s0 + draw(st.sampled_from([0, 10, 1000]))]
                    added.append({"seqid": draw(st.sampled_from(SEQIDS)), "ft": draw(st.sampled_from(FTS)), "start": iv[0], "end": iv[1],
                                  "strand": draw(st.sampled_from(["+", "-", "."]))})
            for a in added:  # and ask about the place where they will land, before and after the update
                for w in (True, False):
                    for margin in (2, 200000):  # tightly around it, and from a neighbouring bin
                        qs.append({"kind": "region", "form": "tuple", "start": max(1, a["start"] - margin), "end": a["end"] + margin,
                                   "seqid": a["seqid"], "within": w, "strand": None, "featuretype": None, "fstrand": "+"})
                        qs.append({"kind": "limit", "form": "tuple", "method": "all_features", "start": max(1, a["start"] - margin),
                                   "end": a["end"] + margin, "seqid": a["seqid"], "within": w, "strand": None, "featuretype": None})
            return {"features": feats, "queries": qs, "added": added, "move": draw(st.booleans()), "via_interfeatures": draw(st.booleans()),
                    "shift": draw(st.sampled_from([0, 0, 0, 1 << 17, (1 << 20) + 5, 131070]))}

        return case()

    @staticmethod
    def _stored(case):
        """Features as stored: a generated shift is applied by a transform while importing."""
        sh = case.get("shift", 0)
        if not sh:
            return case["features"]
        return [dict(f, start=f["start"] + sh, end=f["end"] + sh) for f in case["features"]]

    def _expect(self, case, q):
        """-> (must, may): ids that must be returned / may additionally be returned."""
        feats = self._stored(case)
        s, e = q["start"], q["end"]
        form = q.get("form")
        strand = q["strand"]
        if q["kind"] == "region" and form == "string-strand":
            strand = q["fstrand"]
        fts = q["featuretype"]
        if isinstance(fts, str):
            fts = [fts]
        pool = feats
        if q["kind"] == "limit":
            m = q["method"]
            if m in ("children", "parents"):
                strand = None  # these methods take no strand argument
            if m == "features_of_type":
                fts = fts or ["exon"]
            if m == "children":
                pool = [f for f in feats if f["parent"]]
            elif m == "parents":
                child = next((f for f in feats if f["parent"]), None)
                pool = [feats[0]] if child else []
        must, may = [], []
        for f in pool:
            if fts is not None and f["ft"] not in fts:
                continue
            if strand is not None and f["strand"] != strand:
                continue
            if form != "kw-noseqid" and f["seqid"] != q["seqid"]:
                continue
            if form == "kw-start-only":
                if q["within"]:
                    hit, edge = f["start"] > s, f["start"] == s
                else:
                    hit, edge = f["end"] > s, f["end"] == s
            elif form == "kw-end-only":
                if q["within"]:
                    hit, edge = f["end"] < e, f["end"] == e
                else:
                    hit, edge = f["start"] < e, f["start"] == e
            else:
                hit = within(f, s, e) if q["within"] else overlaps(f, s, e)
                edge = False
            if hit:
                must.append(f["id"])
            elif edge:
                may.append(f["id"])
        return must, may

    def classify(self, case):
        n = len(case["features"])
        nt = False
        labels = ["shifted-by-transform"] if case.get("shift") else []
        for q in case["queries"]:
            must, _ = self._expect(case, q)
            edge = _near_edge(q["start"]) or _near_edge(q["end"])
            big = q["end"] >= MAXC
            if 0 < len(must) < n or edge or big:
                nt = True
            labels.append("q:%s/%s" % (q["kind"], q.get("form")))
            if big:
                labels.append("q:end>=2^29")
            if edge:
                labels.append("q:near-bin-edge")
            if must:
                labels.append("q:non-empty-answer")
        return nt, labels

    def check(self, case, ctx):
        import gffutils
        from gffutils.feature import Feature

        feats = case["features"]
        lines = []
        for f in feats:
            attrs = "ID=%s" % f["id"] + (";Parent=f0" if f["parent"] else "")
            lines.append("\t".join([f["seqid"], "src", f["ft"], str(f["start"]), str(f["end"]), ".", f["strand"], ".", attrs]))
        sh = case.get("shift", 0)

        def shift(x):
            x.start += sh
            x.end += sh
            return x

        db = gffutils.create_db("\n".join(lines) + "\n", ":memory:", from_string=True, transform=shift if sh else None)
        feats = self._stored(case)
        child = next((f for f in feats if f["parent"]), None)
        # every query is followed by its twin with completely_within toggled (same bounds, same process), and the
        # whole list is asked again after update() has added features through the same handle
        queries = []
        for q in case["queries"]:
            queries.append(q)
            if q.get("form") not in ("kw-start-only", "kw-end-only"):
                queries.append(dict(q, within=not q["within"]))
        # two region() generators consumed alternately do not disturb each other
        if len(case["queries"]) >= 2:
            qa, qb = case["queries"][0], case["queries"][1]
            ga = db.region((qa["seqid"], qa["start"], qa["end"]), completely_within=qa["within"])
            gb = db.region((qb["seqid"], qb["start"], qb["end"]), completely_within=qb["within"])
            ia, ib = [], []
            for _ in range(len(feats) + 1):
                for gen, acc in ((ga, ia), (gb, ib)):
                    try:
                        acc.append(next(gen).id)
                    except StopIteration:
                        pass
            for q_, got_ in ((qa, ia), (qb, ib)):
                pred = within if q_["within"] else overlaps
                want_ = sorted(f["id"] for f in feats if f["seqid"] == q_["seqid"] and pred(f, q_["start"], q_["end"]))
                if sorted(got_) != want_:
                    return Failure("two region() generators consumed alternately: %s:%d-%d gave %r, expected %r"
                                   % (q_["seqid"], q_["start"], q_["end"], sorted(got_), want_), sig={"kind": "region-interleaved"})
        for phase in ("initial", "after-update"):
            bad = self._run_queries(case, db, feats, child, queries, ctx, phase)
            if bad is not None:
                return bad
            if phase == "initial":
                extra = case.get("added") or []
                if not extra:
                    break
                from gffutils.feature import feature_from_line

                new_feats = []
                for j, f in enumerate(extra):
                    fid = "n%d" % j
                    new_feats.append(dict(f, id=fid, parent=True))
                lines2 = ["\t".join([f["seqid"], "src", f["ft"], str(f["start"]), str(f["end"]), ".", f["strand"], ".", "ID=%s;Parent=f0" % f["id"]])
                          for f in new_feats]
                objs = [feature_from_line(l) for l in lines2]
                if case.get("via_interfeatures"):
                    # the same features, derived as the space between two flanking Features and written back
                    from gffutils.feature import Feature

                    for j, f in enumerate(new_feats):
                        if f["start"] < 3:
                            continue
                        left = Feature(seqid=f["seqid"], source="src", featuretype="exon", start=max(1, f["start"] - 9), end=f["start"] - 1,
                                       strand=f["strand"], attributes={"ID": ["L%d" % j]})
                        right = Feature(seqid=f["seqid"], source="src", featuretype="exon", start=f["end"] + 1, end=f["end"] + 9,
                                        strand=f["strand"], attributes={"ID": ["R%d" % j]})
                        made = list(db.interfeatures([left, right], new_featuretype=f["ft"], merge_attributes=False,
                                                     update_attributes={"ID": [f["id"]], "Parent": ["f0"]}))
                        if len(made) == 1:
                            objs[j] = made[0]
                            ctx.count("features added as interfeatures")
                db.update(objs, make_backup=False)
                feats = feats + new_feats
                if case.get("move") and len(feats) >= 2:
                    # add_relation() re-writes the feature its child_func returns: f1 moves to a new place
                    far = max(f["end"] for f in feats)
                    ns, ne = far + (1 << 17) + 7, far + (1 << 17) + 40

                    def mover(parent, child):
                        child.start, child.end = ns, ne
                        return child

                    db.add_relation("f0", "f1", 9, child_func=mover)
                    # (the new relation also makes f1 a child of f0)
                    feats = [dict(f, start=ns, end=ne, parent=True) if f["id"] == "f1" else f for f in feats]
                    case = dict(case, features=[dict(f, start=ns - sh, end=ne - sh, parent=True) if f["id"] == "f1" else f for f in case["features"]])
                    q0 = {"kind": "region", "form": "tuple", "start": ns - 1, "end": ne + 1, "seqid": feats[1]["seqid"], "within": True,
                          "strand": None, "featuretype": None, "fstrand": "+"}
                    queries = queries + [q0, dict(q0, kind="limit", method="all_features"), dict(q0, kind="limit", method="all_features", within=False)]
                case = dict(case, features=case["features"] + [dict(f, start=f["start"] - sh, end=f["end"] - sh) for f in new_feats])
                child = next((f for f in feats if f["parent"]), None)
        return None

    def _run_queries(self, case, db, feats, child, queries, ctx, phase):
        from gffutils.feature import Feature

        for q in queries:
            s, e, seqid = q["start"], q["end"], q["seqid"]
            kw = {}
            if q["strand"] is not None:
                kw["strand"] = q["strand"]
            if q["within"]:
                kw["completely_within"] = True
            if q["kind"] == "region":
                if q["featuretype"] is not None:
                    kw["featuretype"] = q["featuretype"]
                form = q["form"]
                if form == "tuple":
                    call = lambda: db.region((seqid, s, e), **kw)
                elif form == "string":
                    call = lambda: db.region("%s:%d-%d" % (seqid, s, e), **kw)
                elif form == "string-strand":
                    kw.pop("strand", None)
                    call = lambda: db.region("%s:%d-%d:%s" % (seqid, s, e, q["fstrand"]), **kw)
                elif form == "feature":
                    if q.get("widened"):
                        # the Feature used as a region was built small and widened in place afterwards
                        rf = Feature(seqid=seqid, start=s, end=s, strand=q["fstrand"])
                        rf.end = e
                        call = lambda: db.region(rf, **kw)
                    else:
                        call = lambda: db.region(Feature(seqid=seqid, start=s, end=e, strand=q["fstrand"]), **kw)
                elif form == "kw":
                    call = lambda: db.region(seqid=seqid, start=s, end=e, **kw)
                elif form == "kw-noseqid":
                    call = lambda: db.region(start=s, end=e, **kw)
                elif form == "kw-start-only":
                    call = lambda: db.region(seqid=seqid, start=s, **kw)
                else:
                    call = lambda: db.region(seqid=seqid, end=e, **kw)
                desc = "region[%s](%s:%d-%d, %r)" % (form, seqid, s, e, kw)
            else:
                lim = (seqid, s, e) if q["form"] == "tuple" else "%s:%d-%d" % (seqid, s, e)
                kw["limit"] = lim
                m = q["method"]
                if m == "all_features":
                    if q["featuretype"] is not None:
                        kw["featuretype"] = q["featuretype"]
                    call = lambda: db.all_features(**kw)
                elif m == "features_of_type":
                    ft = q["featuretype"] or "exon"
                    call = lambda: db.features_of_type(ft, **kw)
                elif m == "children":
                    kw.pop("strand", None)
                    if q["featuretype"] is not None:
                        kw["featuretype"] = q["featuretype"]
                    call = lambda: db.children("f0", **kw)
                else:
                    if child is None:
                        continue
                    kw.pop("strand", None)
                    if q["featuretype"] is not None:
                        kw["featuretype"] = q["featuretype"]
                    call = lambda: db.parents(child["id"], **kw)
                desc = "%s(%r)" % (m, kw)
            got = [f.id for f in call()]
            must, may = self._expect(case, q)
            ctx.count("queries")
            if len(got) != len(set(got)):
                return Failure("%s returned a feature more than once: %r" % (desc, got), sig={"kind": "duplicate"})
            missing = set(must) - set(got)
            extra = set(got) - set(must) - set(may)
            if missing or extra:
                byid = dict((f["id"], f) for f in feats)
                show = lambda ids: [(i, byid[i]["seqid"], byid[i]["start"], byid[i]["end"], byid[i]["strand"], byid[i]["ft"]) for i in sorted(ids)][:4]
                return Failure(
                    "%s%s: missing %r, unexpected %r" % ("" if phase == "initial" else "[after update() on the same handle] ", desc, show(missing), show(extra)),
                    sig={"kind": "region" if q["kind"] == "region" else "limit", "form": q.get("form"),
                         "missing": bool(missing), "extra": bool(extra), "beyond": q["end"] >= MAXC},
                )
        return None


class StoredTruthLeg(object):
    """A GTF database whose inferred genes / transcripts change when update() brings further exons (possibly in another
    bin); whatever the importer stored, every region()/limit= answer must be the brute-force filter of the stored rows."""
    kind = "hyp"
    name = "gtf-history"
    budget = {"quick": (8, 40), "thorough": (16, 600)}

    def strategy(self):
        from hypothesis import strategies as st

        far = st.sampled_from([131072 - 400, 131072 + 9000, 140000, 1048576 - 300, 1048576 + 50, 3000, 8388608 + 5])
        exon = st.tuples(st.integers(100, 6000), st.integers(0, 900))

        return st.fixed_dictionaries({
            "first": st.lists(st.tuples(st.sampled_from(["t1", "t1", "t2"]), exon), min_size=1, max_size=4),
            "later": st.lists(st.tuples(st.sampled_from(["t1", "t1", "t2", "t3"]), far, st.integers(0, 2000)), min_size=1, max_size=3),
            "reopen": st.booleans(),
            "file_db": st.booleans(),
            "margins": st.lists(st.sampled_from([0, 1, 2, 500, 5000, 200000]), min_size=2, max_size=4),
            "merge_all": st.booleans(),
        })

    def classify(self, case):
        first_tx = set(t for t, _ in case["first"])
        ext = any(t in first_tx for t, _, _ in case["later"])
        return ext, ["extends-an-inferred-transcript" if ext else "new-transcripts-only"]

    @staticmethod
    def _line(t, s, e):
        return 'chr1\tsrc\texon\t%d\t%d\t.\t+\t.\tgene_id "g1"; transcript_id "%s";' % (s, e, t)

    def check(self, case, ctx):
        import gffutils

        l1 = [self._line(t, s, s + n) for t, (s, n) in case["first"]]
        l2 = [self._line(t, s, s + n) for t, s, n in case["later"]]
        dbfn = ctx.path("h.db") if case["file_db"] else ":memory:"
        db = gffutils.create_db("\n".join(l1) + "\n", dbfn, from_string=True)
        list(db.all_features(limit=("chr1", 1, 10000)))
        db.update(ctx.write("h2.gtf", "\n".join(l2) + "\n"), make_backup=False)
        if case.get("merge_all"):
            db.merge_all()  # stores one more feature per run of overlapping features of a type
        if case["reopen"] and case["file_db"]:
            db.conn.close()
            db = gffutils.FeatureDB(dbfn)
        stored = [{"id": f.id, "seqid": f.seqid, "start": f.start, "end": f.end, "ft": f.featuretype} for f in db.all_features()]
        if not case.get("merge_all") and sum(1 for f in stored if f["ft"] == "exon") != len(l1) + len(l2):
            return Failure("%d exon lines given, %d stored" % (len(l1) + len(l2), sum(1 for f in stored if f["ft"] == "exon")), sig={"kind": "row-count"})
        nq = 0
        for f in stored:
            for m, tail_only in [(m_, False) for m_ in case["margins"]] + [(case["margins"][0], True)]:
                s, e = max(1, f["start"] - m), f["end"] + m
                if tail_only:
                    s = f["end"]  # a window that touches only the feature's last base and what follows
                for w in (False, True):
                    pred = within if w else overlaps
                    for ft in (None, "gene", "transcript"):
                        want = sorted(x["id"] for x in stored if pred(x, s, e) and (ft is None or x["ft"] == ft))
                        kw = {"completely_within": w}
                        calls = [("region", lambda: db.region(seqid="chr1", start=s, end=e, featuretype=ft, **kw)),
                                 ("all_features(limit=)", lambda: db.all_features(limit=("chr1", s, e), featuretype=ft, **kw))]
                        if ft is not None:
                            calls.append(("features_of_type(limit=)", lambda: db.features_of_type(ft, limit="chr1:%d-%d" % (s, e), **kw)))
                        for name, call in calls:
                            got = sorted(x.id for x in call())
                            nq += 1
                            if got != want:
                                return Failure("after a GTF update: %s chr1:%d-%d (completely_within=%s, featuretype=%r) = %r, the stored rows "
                                               "that match are %r" % (name, s, e, w, ft, got, want),
                                               sig={"kind": "limit" if "limit" in name else "region", "where": "gtf-history"})
        ctx.count("queries against stored rows", nq)
        return None


LEGS = [QueriesLeg(), StoredTruthLeg()]
