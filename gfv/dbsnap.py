"""
Logical snapshot of a gffutils database, read through the public API
(FeatureDB.execute SELECTs, FeatureDB.dialect / .directives).  JSON-able, so two
snapshots are compared with ==.
"""
import json

FEATURE_COLS = ["id", "seqid", "source", "featuretype", "start", "end", "score", "strand", "frame",
                "attributes", "extra", "bin"]


def snapshot(db, attr_sets=False, sort_values=False, sort_keys=False):
    """attr_sets: compare attribute values as sorted lists (documented set semantics after a merge)."""
    rows = []
    cur = db.execute("SELECT %s FROM features ORDER BY rowid" % ", ".join(FEATURE_COLS))
    for r in cur:
        r = list(r)
        attrs = json.loads(r[9]) if r[9] else {}
        if attr_sets or sort_values:
            attrs = dict((k, sorted(v)) for k, v in attrs.items())
        if sort_keys:
            attrs = dict(sorted(attrs.items()))
        extra = json.loads(r[10]) if r[10] else []
        rows.append({"id": r[0], "cols": r[1:9], "attrs": [[k, v] for k, v in attrs.items()], "extra": extra, "bin": r[11]})
    rel = sorted([list(r) for r in db.execute("SELECT parent, child, level FROM relations")])
    directives = [r[0] for r in db.execute("SELECT directive FROM directives ORDER BY rowid")]
    auto = sorted([list(r) for r in db.execute("SELECT base, n FROM autoincrements")])
    meta = [list(r) for r in db.execute("SELECT dialect, version FROM meta")]
    dialects = [json.loads(m[0]) for m in meta]
    return {
        "features": rows,
        "relations": rel,
        "directives": directives,
        "autoincrements": auto,
        "dialect": dialects[0] if dialects else None,
        "n_meta": len(meta),
    }


def diff(a, b, keys=("features", "relations", "directives", "autoincrements", "dialect")):
    """First difference between two snapshots as a short string, or None."""
    for k in keys:
        if a[k] != b[k]:
            if isinstance(a[k], list):
                if len(a[k]) != len(b[k]):
                    return "%s: %d vs %d entries; only-left %r only-right %r" % (
                        k, len(a[k]), len(b[k]),
                        [x for x in a[k] if x not in b[k]][:3], [x for x in b[k] if x not in a[k]][:3])
                for i, (x, y) in enumerate(zip(a[k], b[k])):
                    if x != y:
                        return "%s[%d]: %r vs %r" % (k, i, x, y)
            return "%s: %r vs %r" % (k, a[k], b[k])
    return None


def lines(db, **kw):
    return [str(f) for f in db.all_features(**kw)]
