"""
Structured GFF/GTF text model, renderer and dialect-observation model.

Written from the GFF3/GTF/GFF2 conventions and the property statements
(dialect.rst), not from gffutils.parser: the renderer is the *inverse oracle*
(the decoded values it started from are what parsing must give back), and the
observation model says which dialect a window of rendered lines exhibits.

JSON shapes
-----------
dialect : {"style": "gff3"|"gtf"|"gff2"|"gff3q", "sep": ";"|"; "|" ; ", "trailing": bool, "repeated": bool}
          styles: gff3 key=value, gtf key "value", gff2 key value, gff3q key="value"
record  : {"cols": [8 strings], "attrs": [[key, [values...]], ...], "extras": [strings]}
"""

STYLES = ("gff3", "gtf", "gff2", "gff3q")
SEPS = (";", "; ", " ; ")

# Characters GFF3 reserves in column 9 (spec section "Description of the format"):
# tab, newline, carriage return, percent, control characters, and ; = & ,
RESERVED = set("\t\n\r%;=&,") | set(chr(i) for i in range(32)) | {chr(127)}


def encode_value(v):
    return "".join("%%%02X" % ord(ch) if ch in RESERVED else ch for ch in v)


def lib_dialect(d):
    """The dialect dictionary gffutils documents for this file dialect (without 'order')."""
    style = d["style"]
    return {
        "leading semicolon": False,
        "trailing semicolon": bool(d["trailing"]),
        "quoted GFF2 values": style in ("gtf", "gff3q"),
        "field separator": d["sep"],
        "keyval separator": "=" if style in ("gff3", "gff3q") else " ",
        "multival separator": ",",
        "fmt": "gtf" if style == "gtf" else "gff3",
        "repeated keys": bool(d["repeated"]),
    }


def render_parts(attrs, d):
    """List of rendered 'key=value' parts of one attribute column."""
    style = d["style"]
    parts = []
    for key, values in attrs:
        if style == "gtf":
            vals = list(values)
        else:
            vals = [encode_value(v) for v in values]
        if not vals:
            parts.append(key + ' ""' if style == "gtf" else key)
            continue
        groups = [[v] for v in vals] if (d["repeated"] and len(vals) > 1) else [vals]
        for g in groups:
            joined = ",".join(g)
            if style == "gff3":
                parts.append(key + "=" + joined)
            elif style == "gff3q":
                parts.append(key + '="' + joined + '"')
            elif style == "gtf":
                parts.append(key + ' "' + joined + '"')
            else:
                parts.append(key + " " + joined)
    return parts


def render_attrs(attrs, d):
    parts = render_parts(attrs, d)
    if not parts:
        return ""
    s = d["sep"].join(parts)
    if d["trailing"]:
        s += ";"
    return s


def render_line(rec, d):
    cols = list(rec["cols"]) + [render_attrs(rec["attrs"], d)] + list(rec.get("extras") or [])
    return "\t".join(cols)


def attrs_dict(rec):
    """Expected decoded attributes: ordered key -> list of values."""
    out = {}
    for k, vs in rec["attrs"]:
        out.setdefault(k, [])
        out[k].extend(vs)
    return out


def expected_cols(rec):
    """Eight columns as gffutils exposes them: start/end as int or None."""
    c = list(rec["cols"])
    c[3] = None if c[3] == "." else int(c[3])
    c[4] = None if c[4] == "." else int(c[4])
    return c


# ----------------------------------------------------------------------------
# what a rendered line makes observable


def observe(rec, d):
    """Dialect entries this line exhibits when looked at alone, and its vote weight."""
    parts = render_parts(rec["attrs"], d)
    keys = list(attrs_dict(rec).keys())
    if not parts:
        # empty attribute column: the default dialect, weight 0
        return {
            "weight": 0,
            "dialect": {
                "leading semicolon": False,
                "trailing semicolon": False,
                "quoted GFF2 values": False,
                "field separator": ";",
                "keyval separator": "=",
                "multival separator": ",",
                "fmt": "gff3",
                "repeated keys": False,
            },
            "order": None,  # default order list, never generated as keys
            "keys": [],
            "nparts": 0,
        }
    style = d["style"]
    rendered_keys = []
    for key, values in rec["attrs"]:
        n = len(values) if (d["repeated"] and len(values) > 1) else 1
        rendered_keys.extend([key] * n)
    repeated_seen = len(set(rendered_keys)) < len(rendered_keys)
    obs = {
        "leading semicolon": False,
        "trailing semicolon": bool(d["trailing"]),
        "quoted GFF2 values": style == "gtf" or (style == "gff3q" and any(vs for _, vs in rec["attrs"])),
        "field separator": d["sep"] if len(parts) >= 2 else ";",
        "keyval separator": "=" if style in ("gff3", "gff3q") else " ",
        "multival separator": ",",
        "fmt": "gtf" if style == "gtf" else "gff3",
        "repeated keys": repeated_seen,
    }
    return {"weight": len(keys), "dialect": obs, "order": keys, "keys": keys, "nparts": len(parts)}


def vote(observations):
    """Attribute-count-weighted vote, ties to the value seen first; order = first-seen keys."""
    if not observations:
        return None
    entries = {}
    for o in observations:
        for k, v in o["dialect"].items():
            slot = entries.setdefault(k, [])
            for item in slot:
                if item[0] == v:
                    item[1] += o["weight"]
                    break
            else:
                slot.append([v, o["weight"]])
    out = {}
    for k, slot in entries.items():
        best = None
        for v, w in slot:
            if best is None or w > best[1]:
                best = (v, w)
        out[k] = best[0]
    order = []
    for o in observations:
        for k in o["keys"]:
            if k not in order:
                order.append(k)
    out["order"] = order
    return out


def window_vote(records_with_dialects, checklines):
    """records_with_dialects: [(rec, dialect)] feature lines in file order.
    Returns (chosen, stable): chosen for a window of checklines+1 lines, and
    whether a window of `checklines` lines (at least one) gives the same answer."""
    obs = [observe(r, d) for r, d in records_with_dialects]
    n1 = max(1, checklines + 1)
    n0 = max(1, checklines)
    a = vote(obs[:n1])
    b = vote(obs[:n0])
    return a, (a == b)


def line_conditions(rec, d, chosen):
    """(attrs_equal_promised, bytes_equal_promised) for a line of file dialect d
    parsed and printed with the chosen dialect (DESIGN A.2)."""
    parts = render_parts(rec["attrs"], d)
    if not parts:
        return True, True
    want = lib_dialect(d)
    ok = (len(parts) <= 1 or chosen["field separator"] == want["field separator"])
    ok = ok and chosen["trailing semicolon"] == want["trailing semicolon"]
    ok = ok and chosen["quoted GFF2 values"] == want["quoted GFF2 values"]
    ok = ok and chosen["keyval separator"] == want["keyval separator"]
    ok = ok and chosen["fmt"] == want["fmt"]
    if not ok:
        return False, False
    multi = any(len(vs) >= 2 for _, vs in rec["attrs"])
    b = chosen["repeated keys"] == want["repeated keys"] or not multi
    order = chosen.get("order") or []
    keys = list(attrs_dict(rec).keys())
    seen_missing = False
    last = -1
    for k in keys:
        if k in order:
            if seen_missing:
                b = False
            i = order.index(k)
            if i < last:
                b = False
            last = i
        else:
            seen_missing = True
    return True, b


# ----------------------------------------------------------------------------
# Hypothesis strategies (imported lazily by the property modules)


def strategies():
    from hypothesis import strategies as st

    class S(object):
        pass

    S.st = st
    word_first = st.from_regex(r"[A-Za-z_][A-Za-z0-9_]{0,7}", fullmatch=True)
    word_key = st.one_of(
        st.sampled_from(["ID", "Name", "Parent", "Alias", "Note", "gene_id", "transcript_id", "note", "k1", "k2", "Dbxref",
                         "product", "description", "Ontology_term"]),
        st.from_regex(r"[A-Za-z_][A-Za-z0-9_.\-]{0,7}", fullmatch=True),
    )
    S.word_first = st.one_of(st.sampled_from(["ID", "Name", "gene_id", "Parent", "k1"]), word_first,
                             st.sampled_from(["Näme", "ключ", "名前", "é1"]))  # \w+ is not ASCII-only
    S.word_key = word_key

    reserved_rich = st.text(
        alphabet=st.sampled_from(list("ab1 ;=&,%\t\n\r\x00\x1f\x7f\"'|.:/-_") + ["é", "λ", "中", " ", "\x85", "😀"]),
        min_size=1,
        max_size=8,
    )
    anytext = st.text(alphabet=st.characters(blacklist_categories=("Cs",)), min_size=1, max_size=10)
    plain = st.one_of(
        st.sampled_from(["a", "b", "gene1", "mRNA1", "x y", "1", "10", "2.5", "A-1", "a b c"]),
        st.from_regex(r"[A-Za-z0-9_.:\-]{1,8}", fullmatch=True),
    )

    def ok_inferred_unquoted(v):
        return v == v.strip() and len(v) > 0 and not v.startswith('"') and not v.endswith('"')

    # text that looks like an HTML entity or a URL query string is ordinary text
    entity_like = st.sampled_from(["&lt;", "AT&amp;T", "&#65;", "&#x41", "a&copy=1", "x=1&sect=2", "&amp;amp;", "a+b", "%2B", "+"])
    S.value_escaped = st.one_of(plain, plain, reserved_rich, reserved_rich, anytext, anytext, entity_like).filter(ok_inferred_unquoted)

    gtf_alpha = st.characters(
        blacklist_categories=("Cs", "Cc"), blacklist_characters=';",\x7f'
    )
    S.value_gtf = st.one_of(
        plain,
        st.sampled_from(["&#65", "a&copy=1", "x=1&sect=2", "&amp", "a+b", "%2B", "%3b"]),
        st.text(alphabet=st.sampled_from(list("ab1 =&%'|.:/-_") + ["é", "λ", "中", "😀"]), min_size=1, max_size=8),
        st.text(alphabet=gtf_alpha, min_size=1, max_size=8),
    ).filter(lambda v: v == v.strip() and len(v) > 0)

    def value_for(style):
        return S.value_gtf if style == "gtf" else S.value_escaped

    S.value_for = staticmethod(value_for)

    S.dialect = st.fixed_dictionaries(
        {
            "style": st.sampled_from(STYLES),
            "sep": st.sampled_from(SEPS),
            "trailing": st.booleans(),
            "repeated": st.booleans(),
        }
    )

    colchars = st.characters(blacklist_categories=("Cs", "Cc"), blacklist_characters="\t\n\r\x85  ")
    coltext = st.text(alphabet=colchars, min_size=1, max_size=6).filter(lambda s: s == s.strip())
    S.seqid = st.one_of(
        st.sampled_from(["chr1", "chr2L", "Chr1", "1", "X", "scaffold_12", "χ1"]),
        coltext.filter(lambda s: s[0] not in "#>"),
    )
    S.source = st.one_of(st.sampled_from([".", "FlyBase", "ensembl", "my src"]), coltext)
    S.ftype = st.one_of(st.sampled_from(["gene", "mRNA", "exon", "CDS", "transcript", "region", "five_prime_UTR"]), coltext)
    S.score = st.one_of(st.sampled_from([".", "0", "10", "9.5", "1e3", "-3"]), coltext)
    S.strand = st.sampled_from(["+", "-", ".", "?"])
    S.frame = st.sampled_from([".", "0", "1", "2"])
    S.coord = st.one_of(st.integers(1, 2000), st.integers(1, 2 ** 29 + 10), st.integers(0, 3))

    @st.composite
    def coords(draw, allow_dot=True):
        if allow_dot and draw(st.integers(0, 9)) == 0:
            which = draw(st.sampled_from(["s", "e", "b"]))
            a = draw(S.coord)
            return ("." if which in "sb" else str(a), "." if which in "eb" else str(a + draw(st.integers(0, 500))))
        a = draw(S.coord)
        b = a + draw(st.one_of(st.integers(0, 500), st.integers(0, 2 ** 20)))
        return (str(a), str(b))

    S.coords = coords

    @st.composite
    def cols(draw, allow_dot=True):
        s, e = draw(coords(allow_dot))
        return [draw(S.seqid), draw(S.source), draw(S.ftype), s, e, draw(S.score), draw(S.strand), draw(S.frame)]

    S.cols = cols

    @st.composite
    def attrs(draw, style, min_n=0, max_n=4, allow_flags=True, max_vals=3, first_key=None, keys=None, empty_items=False):
        n = draw(st.integers(min_n, max_n))
        out = []
        used = set()
        for i in range(n):
            if i == 0 and first_key is not None:
                k = first_key
            elif i == 0:
                k = draw(S.word_first)
            else:
                k = draw(keys if keys is not None else S.word_key)
            if k in used:
                continue
            used.add(k)
            flag = allow_flags and i > 0 and draw(st.integers(0, 7)) == 0
            if flag:
                out.append([k, []])
            else:
                nv = draw(st.sampled_from([1, 1, 1, 2, 3][: 2 + max_vals]))
                nv = min(nv, max_vals)
                vals = draw(st.lists(value_for(style), min_size=nv, max_size=nv))
                if empty_items and i > 0 and nv >= 1 and draw(st.integers(0, 5)) == 0:
                    # a stray comma ("Parent=m1," / "Dbxref=a,,b"): an empty item next to non-empty ones
                    pos = draw(st.integers(1, len(vals)))
                    vals = vals[:pos] + [""] + vals[pos:]
                out.append([k, vals])
        return out

    S.attrs = attrs

    extra_text = st.text(alphabet=colchars, min_size=0, max_size=5)
    S.extras = st.one_of(st.just([]), st.just([]), st.lists(extra_text, min_size=1, max_size=3))

    @st.composite
    def record(draw, style, **kw):
        allow_dot = kw.pop("allow_dot", True)
        with_extras = kw.pop("with_extras", True)
        return {
            "cols": draw(cols(allow_dot)),
            "attrs": draw(attrs(style, **kw)),
            "extras": draw(S.extras) if with_extras else [],
        }

    S.record = record
    return S
