"""A leg that runs one atheris campaign (gfv.fuzz) in a subprocess and folds its result
into the recorder.  Distinct non-trivial inputs are counted conservatively: the units of
libFuzzer's final corpus (distinct by construction) that satisfy the target's rule."""
import json
import os
import subprocess
import sys
import time

from gfv import core
from gfv.core import Failure


class FuzzLeg(object):
    kind = "custom"

    def __init__(self, name, target, runs, classify_bytes, seed_corpus=None, max_len=64):
        self.name = name
        self.target = target
        self.runs = runs  # tier -> (shards, runs per shard)
        self.budget = dict((t, (v[0], 0)) for t, v in runs.items())
        self.classify_bytes = classify_bytes
        self.seed_corpus = seed_corpus
        self.max_len = max_len

    def classify(self, case):
        return True, []

    def check(self, case, ctx):  # replay of a saved fuzz finding goes through the property's own legs
        raise core.HarnessError("fuzz findings are replayed through the plain legs")

    def run(self, rec, tier, seed, shard, nshards, deadline):
        env = dict(os.environ)
        env["PYTHONPATH"] = os.pathsep.join([core.VERIF, os.path.join(core.VERIF, ".deps"), env.get("PYTHONPATH", "")])
        probe = subprocess.run([sys.executable, "-c", "import atheris"], env=env, capture_output=True)
        if probe.returncode != 0:
            rec.notes.append("atheris is not installed (tools/setup.sh installs it into .deps): fuzz leg skipped")
            return
        work = os.path.join(rec.ctx.root, "fuzz_%s_%d" % (self.name, shard))
        corpus = os.path.join(work, "corpus")
        os.makedirs(corpus)
        if self.seed_corpus is not None and shard % 2 == 1:
            for i, b in enumerate(self.seed_corpus()):
                with open(os.path.join(corpus, "seed%04d" % i), "wb") as fh:
                    fh.write(b)
        result = os.path.join(work, "result.json")
        runs = self.runs[tier][1]
        cmd = [sys.executable, "-m", "gfv.fuzz", self.target, result, corpus, "-runs=%d" % runs, "-seed=%d" % (seed % 2147483647 or 1),
               "-max_len=%d" % self.max_len, "-timeout=20", "-print_final_stats=1", "-verbosity=0"]
        budget = max(5.0, deadline - time.monotonic())
        try:
            p = subprocess.run(cmd, env=env, cwd=work, capture_output=True, text=True, timeout=budget, errors="replace")
            out = p.stderr[-4000:]
        except subprocess.TimeoutExpired:
            rec.skipped_after_budget += 1
            out = ""
        stats = {"execs": 0, "nontrivial": 0, "samples": []}
        if os.path.exists(result + ".stats"):
            with open(result + ".stats") as fh:
                stats = json.load(fh)
        execs = stats["execs"]
        for line in out.splitlines():
            if "number_of_executed_units" in line:
                try:
                    execs = max(execs, int(line.split()[-1]))
                except ValueError:
                    pass
        distinct_nt = 0
        for n in os.listdir(corpus):
            with open(os.path.join(corpus, n), "rb") as fh:
                if self.classify_bytes(fh.read()):
                    distinct_nt += 1
        rec.count_bulk(execs, distinct_nt, labels={"executions": execs, "non-trivial executions (with repeats)": stats["nontrivial"],
                                                   "corpus units": len(os.listdir(corpus))}, samples=stats["samples"][:2])
        rec.notes.append("atheris campaign: -runs=%d -seed=%d, %s corpus, max_len=%d" % (
            runs, seed, "seeded" if (self.seed_corpus is not None and shard % 2 == 1) else "empty", self.max_len))
        if os.path.exists(result):
            with open(result) as fh:
                body = json.load(fh)
            f = body["failure"]
            rec.report(body["case"], Failure(f["msg"], sig=f.get("sig"), detail=f.get("detail")))
        elif out and "ERROR: libFuzzer" in out and "deadly signal" in out:
            raise core.HarnessError("fuzz target crashed without a recorded failure:\n%s" % out[-1500:])
