"""
Shared runner pieces: failure objects, the per-shard recorder, exception triage,
known findings, evidence and replay files.

Conventions
-----------
* A *case* is a JSON-serialisable value.  Every check function has the shape
  ``check(case, ctx) -> None | Failure`` and does not need Hypothesis.
* An exception whose traceback passes through the gffutils package under test
  is a *library* exception: on an in-domain case it is a failure of the
  property ("raised ...") unless the check caught and expected it.  Any other
  exception is a bug in this harness: the run ends with exit code 2 and never
  with a VIOLATION line.
"""
import hashlib
import json
import os
import shutil
import sys
import tempfile
import time
import traceback

VERIF = os.path.dirname(os.path.dirname(os.path.abspath(__file__)))
REPO = os.path.realpath(os.environ.get("GFV_REPO", "/repo"))
LIBDIR = os.path.join(REPO, "gffutils") + os.sep


class HarnessError(BaseException):
    """Bug in generator/oracle code.  BaseException so Hypothesis does not
    treat it as a falsifying example and shrink it."""


class Failure(object):
    def __init__(self, msg, sig=None, detail=None):
        self.msg = msg
        self.sig = dict(sig or {})
        self.detail = detail

    def as_dict(self):
        return {"msg": self.msg, "sig": self.sig, "detail": self.detail}

    def __repr__(self):
        return "Failure(%r, sig=%r)" % (self.msg, self.sig)


def jdump(x):
    return json.dumps(x, sort_keys=True, ensure_ascii=True, default=_default)


def _default(o):
    if isinstance(o, (set, frozenset)):
        return sorted(o, key=repr)
    if isinstance(o, tuple):
        return list(o)
    if isinstance(o, bytes):
        return {"__bytes__": o.hex()}
    return repr(o)


def case_hash(case):
    return int.from_bytes(hashlib.sha1(jdump(case).encode()).digest()[:8], "big")


def import_gffutils():
    """Import the package under test from REPO's working tree."""
    if sys.path[0] != REPO:
        sys.path.insert(0, REPO)
    import gffutils

    where = os.path.realpath(gffutils.__file__)
    if not where.startswith(LIBDIR):
        raise HarnessError("gffutils imported from %s, expected %s" % (where, LIBDIR))
    import logging

    logging.getLogger("gffutils.create").disabled = True
    logging.getLogger("gffutils.parser").disabled = True
    import warnings

    warnings.simplefilter("ignore")
    return gffutils


def lib_frame(exc):
    """Innermost traceback frame inside the package under test, or None."""
    found = None
    tb = exc.__traceback__
    while tb is not None:
        fn = os.path.realpath(tb.tb_frame.f_code.co_filename)
        if fn.startswith(LIBDIR):
            found = (os.path.basename(fn), tb.tb_frame.f_code.co_name, tb.tb_lineno)
        tb = tb.tb_next
    return found


def raised_failure(exc, what="library call"):
    fr = lib_frame(exc)
    return Failure(
        "%s raised %s: %s" % (what, type(exc).__name__, str(exc)[:300]),
        sig={
            "kind": "raised",
            "exc": type(exc).__name__,
            "where": "%s:%s" % (fr[0], fr[1]) if fr else "?",
        },
        detail="".join(traceback.format_exception(type(exc), exc, exc.__traceback__))[-3000:],
    )


class LibRaised(Exception):
    """Raised by `lib()` when a wrapped library call raises anything at all."""

    def __init__(self, exc, what):
        Exception.__init__(self, "%s raised %r" % (what, exc))
        self.exc = exc
        self.what = what


def lib(fn, *a, **kw):
    """Call into the library; whatever it raises (also from code that does not
    show a gffutils frame, e.g. sqlite3 called directly by a generator) is
    attributed to the library."""
    what = kw.pop("_what", getattr(fn, "__name__", "call"))
    try:
        return fn(*a, **kw)
    except Exception as e:  # noqa
        raise LibRaised(e, what)


# ----------------------------------------------------------------------------
# scratch space


class Ctx(object):
    def __init__(self, tier, seed, shard=0):
        self.tier = tier
        self.seed = seed
        self.shard = shard
        base = "/dev/shm" if os.path.isdir("/dev/shm") and os.access("/dev/shm", os.W_OK) else None
        self.root = tempfile.mkdtemp(prefix="gfv-%d-" % os.getpid(), dir=base)
        self.tmp = os.path.join(self.root, "t")
        os.mkdir(self.tmp)
        os.environ["TMPDIR"] = self.tmp
        tempfile.tempdir = self.tmp
        self._n = 0
        self.counts = {}

    def count(self, name, n=1):
        """Measured facts about what a check actually compared (reported under classes as '#name')."""
        self.counts[name] = self.counts.get(name, 0) + n

    def path(self, name):
        self._n += 1
        return os.path.join(self.tmp, "%d_%s" % (self._n, name))

    def write(self, name, text, newline=""):
        p = self.path(name)
        with open(p, "w", encoding="utf-8", newline=newline) as fh:
            fh.write(text)
        return p

    def cleanup(self):
        for n in os.listdir(self.tmp):
            p = os.path.join(self.tmp, n)
            try:
                if os.path.isdir(p) and not os.path.islink(p):
                    shutil.rmtree(p, ignore_errors=True)
                else:
                    os.unlink(p)
            except OSError:
                pass

    def close(self):
        shutil.rmtree(self.root, ignore_errors=True)


# ----------------------------------------------------------------------------
# known findings


def load_known(prop):
    p = os.path.join(VERIF, "known_findings.json")
    if not os.path.exists(p):
        return []
    with open(p) as fh:
        data = json.load(fh)
    return [e for e in data.get("findings", []) if e.get("property") == prop and e.get("status") == "known"]


def match_known(known, failure):
    for e in known:
        want = e.get("signature", {})
        if want and all(failure.sig.get(k) == v for k, v in want.items()):
            return e
    return None


# ----------------------------------------------------------------------------
# recorder


class Recorder(object):
    """Per-(leg, shard) bookkeeping.  Serialisable via .result()."""

    MAX_SAMPLES = 4

    def __init__(self, prop, leg, ctx, known=()):
        self.prop = prop
        self.leg = leg
        self.ctx = ctx
        self.known = list(known)
        self.evaluations = 0
        self.nt_hashes = set()
        self.nt_extra = 0  # non-trivial cases counted by construction (enumerations)
        self.classes = {}
        self.first_samples = []
        self.low_samples = []  # (hash, case) smallest hashes: a deterministic spread
        self.failure = None  # (size, case, Failure)
        self.n_failing = 0
        self.known_hits = {}
        self.excluded = {}
        self.skipped_after_budget = 0
        self.exhaustive = None
        self.notes = []

    # -- counting
    def label(self, name, n=1):
        self.classes[name] = self.classes.get(name, 0) + n

    def note_case(self, case, nontrivial, labels=()):
        self.evaluations += 1
        for l in labels:
            self.label(l)
        if nontrivial:
            h = case_hash(case)
            if h not in self.nt_hashes:
                self.nt_hashes.add(h)
                if len(self.first_samples) < 2:
                    self.first_samples.append(case)
                else:
                    self.low_samples.append((h, case))
                    self.low_samples.sort(key=lambda t: t[0])
                    del self.low_samples[self.MAX_SAMPLES - 2 :]

    def count_bulk(self, evaluations, nontrivial_distinct, labels=None, samples=()):
        """For tight enumeration loops: cases are distinct by construction."""
        self.evaluations += evaluations
        self.nt_extra += nontrivial_distinct
        for k, v in (labels or {}).items():
            self.label(k, v)
        for s in samples:
            if len(self.first_samples) < self.MAX_SAMPLES:
                self.first_samples.append(s)

    # -- failures
    def report(self, case, failure):
        """Returns the failure if it counts as a violation, None if it is a
        listed known finding."""
        e = match_known(self.known, failure)
        if e is not None:
            self.known_hits[e["id"]] = self.known_hits.get(e["id"], 0) + 1
            return None
        self.n_failing += 1
        size = len(jdump(case))
        if self.failure is None or size < self.failure[0]:
            self.failure = (size, case, failure)
        return failure

    def run_case(self, legobj, case):
        """classify + check one case, with exception triage and cleanup."""
        try:
            try:
                nt, labels = legobj.classify(case)
            except Exception as e:
                raise HarnessError("classify failed: %r\n%s" % (e, traceback.format_exc()))
            self.note_case(case, nt, labels)
            try:
                f = legobj.check(case, self.ctx)
            except LibRaised as e:
                f = raised_failure(e.exc, e.what)
            except HarnessError:
                raise
            except Exception as e:
                if lib_frame(e) is not None:
                    f = raised_failure(e)
                else:
                    raise HarnessError(
                        "check raised outside the library: %r\ncase=%s\n%s"
                        % (e, jdump(case)[:2000], traceback.format_exc())
                    )
        finally:
            self.ctx.cleanup()
        if f is None:
            return None
        if not isinstance(f, Failure):
            raise HarnessError("check returned %r" % (f,))
        return self.report(case, f)

    def result(self):
        samples = list(self.first_samples) + [c for _, c in self.low_samples]
        for k, v in self.ctx.counts.items():
            self.classes["#" + k] = self.classes.get("#" + k, 0) + v
        self.ctx.counts = {}
        return {
            "leg": self.leg,
            "shard": self.ctx.shard,
            "evaluations": self.evaluations,
            "nt_hashes": sorted(self.nt_hashes),
            "nt_extra": self.nt_extra,
            "classes": self.classes,
            "samples": samples,
            "failure": None
            if self.failure is None
            else {"case": self.failure[1], "failure": self.failure[2].as_dict()},
            "n_failing": self.n_failing,
            "known_hits": self.known_hits,
            "excluded": self.excluded,
            "skipped_after_budget": self.skipped_after_budget,
            "exhaustive": self.exhaustive,
            "notes": self.notes,
        }


# ----------------------------------------------------------------------------
# Hypothesis driver


class _CaseFailed(Exception):
    pass


class _StopShrinking(BaseException):
    """Ends the Hypothesis run once the shrink budget is spent; the smallest failing
    case seen so far is already in the recorder."""


def run_hypothesis(legobj, rec, seed, n_examples, deadline, shrink_budget):
    """Run legobj.strategy() for n_examples; failures end up in rec."""
    import hypothesis
    from hypothesis import HealthCheck, Phase, given, settings

    state = {"t_fail": None}

    def body(case):
        now = time.monotonic()
        if now > deadline:
            rec.skipped_after_budget += 1
            return
        if state["t_fail"] is not None and now - state["t_fail"] > shrink_budget:
            raise _StopShrinking()
        f = rec.run_case(legobj, case)
        if f is not None:
            if state["t_fail"] is None:
                state["t_fail"] = time.monotonic()
            raise _CaseFailed(f.msg)

    test = given(legobj.strategy())(body)
    test = settings(
        max_examples=n_examples,
        database=None,
        deadline=None,
        derandomize=False,
        report_multiple_bugs=False,
        suppress_health_check=list(HealthCheck),
        phases=[Phase.generate, Phase.shrink],
        print_blob=False,
    )(test)
    test = hypothesis.seed(seed)(test)
    try:
        test()
    except (_CaseFailed, _StopShrinking):
        pass
    except HarnessError:
        raise
    except BaseException as e:  # Flaky etc. after we cut the shrinker short
        if rec.failure is None:
            if isinstance(e, (KeyboardInterrupt, SystemExit)):
                raise
            raise HarnessError("hypothesis run failed: %r\n%s" % (e, traceback.format_exc()))


# ----------------------------------------------------------------------------
# files


def write_failure_file(prop, leg, case, failure):
    d = os.path.join(VERIF, "out", "failures", prop)
    os.makedirs(d, exist_ok=True)
    body = {"property": prop, "leg": leg, "case": case, "failure": failure}
    text = json.dumps(body, indent=1, sort_keys=True, default=_default)
    name = hashlib.sha1(jdump({"leg": leg, "case": case}).encode()).hexdigest()[:16] + ".json"
    p = os.path.join(d, name)
    with open(p, "w") as fh:
        fh.write(text + "\n")
    return p


def committed_replays(prop):
    d = os.path.join(VERIF, "replays", prop)
    if not os.path.isdir(d):
        return []
    return [os.path.join(d, n) for n in sorted(os.listdir(d)) if n.endswith(".json")]


def write_evidence(prop, body):
    d = os.path.join(VERIF, "evidence")
    os.makedirs(d, exist_ok=True)
    p = os.path.join(d, prop + ".json")
    tmp = p + ".tmp%d" % os.getpid()
    with open(tmp, "w") as fh:
        json.dump(body, fh, indent=1, sort_keys=True, default=_default)
        fh.write("\n")
    os.replace(tmp, p)
    return p
