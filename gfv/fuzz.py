"""
Coverage-guided byte-level targets (atheris / libFuzzer) with the semantic oracle inside
the target.  Run in a subprocess by the fuzz legs:

    python -m gfv.fuzz <c07|c08> <result.json> [libFuzzer args...]

The target writes the first failing case (JSON, same shape as the property's replay
cases) to <result.json> and raises, which makes libFuzzer stop.  Counters (executions,
non-trivial inputs) are flushed to <result.json>.stats every 2048 executions, because
atexit handlers do not run under atheris.
"""
import json
import os
import sys


def main():
    which, result = sys.argv[1], sys.argv[2]
    argv = [sys.argv[0]] + sys.argv[3:]
    import atheris

    from gfv import core

    with atheris.instrument_imports(include=["gffutils"]):
        core.import_gffutils()
        import gffutils.parser  # noqa
        import gffutils.feature  # noqa
    stats = {"execs": 0, "nontrivial": 0, "samples": []}

    def flush():
        with open(result + ".stats", "w") as fh:
            json.dump(stats, fh)

    def fail(case, failure):
        with open(result, "w") as fh:
            json.dump({"case": case, "failure": failure.as_dict()}, fh)
        flush()
        raise RuntimeError("property violated: %s" % failure.msg)

    if which == "c08":
        from gfv.props import c08

        def one(data):
            try:
                s = data.decode("utf-8")
            except UnicodeDecodeError:
                s = data.decode("utf-8", "ignore")
            stats["execs"] += 1
            if sum(1 for ch in s if ch in ';=",% ') >= 2:
                stats["nontrivial"] += 1
                if len(stats["samples"]) < 4 and len(s) > 6:
                    stats["samples"].append({"s": s})
            f = c08.parse_total(s)
            if f is not None:
                fail({"s": s}, f)
            if stats["execs"] % 2048 == 0:
                flush()

    elif which == "c07":
        from gfv import textmodel as tm
        from gfv.props import c07

        leg = c07.StrictLeg()
        KEYS = ["ID", "Name", "Parent", "note", "k1", "k2", "gene_id", "Dbxref", "a.b", "x-y"]

        def value(fdp, style):
            n = fdp.ConsumeIntInRange(1, 6)
            v = fdp.ConsumeUnicodeNoSurrogates(n)
            v = v.strip()
            if style == "gtf":
                v = "".join(ch for ch in v if ch not in ';",' and not (ord(ch) < 32 or 127 <= ord(ch) < 160))
                v = v.strip()
            if not v or v.startswith('"') or v.endswith('"'):
                return None
            return v

        def one(data):
            fdp = atheris.FuzzedDataProvider(data)
            d = {"style": tm.STYLES[fdp.ConsumeIntInRange(0, 3)], "sep": tm.SEPS[fdp.ConsumeIntInRange(0, 2)],
                 "trailing": fdp.ConsumeBool(), "repeated": fdp.ConsumeBool()}
            attrs = []
            used = set()
            for i in range(fdp.ConsumeIntInRange(0, 5)):
                k = KEYS[fdp.ConsumeIntInRange(0, 4 if i == 0 else len(KEYS) - 1)]
                if k in used:
                    continue
                used.add(k)
                if i > 0 and fdp.ConsumeIntInRange(0, 7) == 0:
                    attrs.append([k, []])
                    continue
                vals = []
                for _ in range(fdp.ConsumeIntInRange(1, 3)):
                    v = value(fdp, d["style"])
                    if v is None:
                        return
                    vals.append(v)
                attrs.append([k, vals])
            start = fdp.ConsumeIntInRange(0, 3000)
            cols = ["chr1", "src", "gene", "." if fdp.ConsumeIntInRange(0, 9) == 0 else str(start),
                    "." if fdp.ConsumeIntInRange(0, 9) == 0 else str(start + fdp.ConsumeIntInRange(0, 500)), ".", "+-.?"[fdp.ConsumeIntInRange(0, 3)], "."]
            extras = ["x", ""][: fdp.ConsumeIntInRange(0, 2)]
            case = {"dialect": d, "rec": {"cols": cols, "attrs": attrs, "extras": extras}}
            stats["execs"] += 1
            nt, _ = leg.classify(case)
            if nt:
                stats["nontrivial"] += 1
                if len(stats["samples"]) < 4:
                    stats["samples"].append(case)
            try:
                f = leg.check(case, None)
            except Exception as e:  # noqa
                if core.lib_frame(e) is None:
                    raise
                f = core.raised_failure(e)
            if f is not None:
                fail(case, f)
            if stats["execs"] % 2048 == 0:
                flush()

    else:
        raise SystemExit("unknown target %r" % which)

    atheris.Setup(argv, one)
    atheris.Fuzz()


if __name__ == "__main__":
    main()
