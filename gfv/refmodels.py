"""
Reference models shared by several properties, written from the property statements
and database-ids.rst (DESIGN Appendix A), not from gffutils.create.

merge model (A.1)
-----------------
A *record* here is {"id": key, "cols": [8 values, start/end int or None], "attrs": {key: [values]}}.
`links(record)` gives the relations the record's own attributes state, as (parent, level)
pairs for the record as child plus free-standing (parent, child, level) triples.
"""
import copy

FIELDS = ["seqid", "source", "featuretype", "start", "end", "score", "strand", "frame"]


def gff_links(rec):
    own = [(p, 1) for p in rec["attrs"].get("Parent", [])]
    return own, []


def gtf_links_factory(tkey="transcript_id", gkey="gene_id"):
    def gtf_links(rec):
        own, free = [], []
        t = rec["attrs"].get(tkey) or []
        g = rec["attrs"].get(gkey) or []
        parent = t[0] if t else None
        if parent is not None:
            own.append((parent, 1))
        if g:
            own.append((g[0], 2))
            if parent is not None:
                free.append((g[0], parent, 1))
        return own, free

    return gtf_links


class MergeModel(object):
    """Sequential model of the five duplicate-key strategies."""

    def __init__(self, strategy, force_fields=(), links=gff_links, level2_closure=True):
        self.strategy = strategy
        self.force = list(force_fields)
        self.links = links
        self.level2_closure = level2_closure
        self.store = {}  # id -> {"cols", "attrs", "merged", "forced": {field: set}}
        self.order = []
        self.rel = set()  # (parent, child, level) stated by surviving lines
        self.stale = set()  # relations stated only by replaced lines
        self.cnt = {}
        self.dups = {}
        self.issued = set()  # every auto id ever issued
        self.error = None

    def _fresh(self, key):
        self.cnt[key] = self.cnt.get(key, 0) + 1
        fid = "%s_%d" % (key, self.cnt[key])
        self.issued.add(fid)
        return fid

    def _put(self, fid, rec):
        if fid not in self.store:
            self.order.append(fid)
        self.store[fid] = {
            "cols": list(rec["cols"]),
            "attrs": copy.deepcopy(rec["attrs"]),
            "merged": False,
            "forced": {},
        }

    def _add_links(self, fid, rec):
        own, free = self.links(rec)
        for p, lvl in own:
            if p != fid:
                self.rel.add((p, fid, lvl))
        for p, c, lvl in free:
            if p != c:
                self.rel.add((p, c, lvl))

    def _line_links(self, fid, rec):
        own, free = self.links(rec)
        out = set((p, fid, lvl) for p, lvl in own if p != fid)
        out |= set((p, c, lvl) for p, c, lvl in free if p != c)
        return out

    def add(self, rec):
        """Returns the id the record ended up under (None if ignored), or raises ModelError."""
        key = rec["id"]
        if key not in self.store:
            self._put(key, rec)
            self._add_links(key, rec)
            return key
        s = self.strategy
        if s == "error":
            self.error = "Duplicate ID %s" % key
            raise ModelError(self.error)
        if s == "warning":
            return None
        if s == "replace":
            old_links = set(r for r in self.rel if r[1] == key)
            self._put(key, rec)
            self.rel -= old_links
            self.stale |= old_links
            self._add_links(key, rec)
            self.stale -= self.rel
            return key
        if s == "create_unique":
            fid = self._fresh(key)
            self._put(fid, rec)
            self._add_links(fid, rec)
            return fid
        if s == "merge":
            idx = [i for i, f in enumerate(FIELDS) if f not in self.force]
            hits = [cand for cand in [key] + self.dups.get(key, [])
                    if cand in self.store and all(self.store[cand]["cols"][i] == rec["cols"][i] for i in idx)]
            if len(hits) > 1:
                # two stored features under one requested key agree with the newcomer (possible only
                # after a replace made them equal): the statement does not say which one receives it
                raise ModelAmbiguous("candidates %r all match" % (hits,))
            hit = hits[0] if hits else None
            if hit is None:
                fid = self._fresh(key)
                self.dups.setdefault(key, []).append(fid)
                self._put(fid, rec)
                self._add_links(fid, rec)
                return fid
            tgt = self.store[hit]
            for k, vs in rec["attrs"].items():
                have = tgt["attrs"].setdefault(k, [])
                for v in vs:
                    if v not in have:
                        have.append(v)
            for k in tgt["attrs"]:
                seen = []
                for v in tgt["attrs"][k]:
                    if v not in seen:
                        seen.append(v)
                tgt["attrs"][k] = seen
            tgt["merged"] = True
            for f in self.force:
                i = FIELDS.index(f)
                vals = tgt["forced"].setdefault(f, set(str(tgt["cols"][i]).split(",")))
                vals.add(str(rec["cols"][i]))
                tgt["cols"][i] = ",".join(sorted(vals))
            self._add_links(hit, rec)
            return hit
        raise AssertionError(s)

    def relations(self, rel=None):
        """Expected relation set incl. level-2 closure over stored features (GFF3 importer)."""
        rel = set(self.rel if rel is None else rel)
        if not self.level2_closure:
            return rel
        c1 = {}
        for p, c, l in rel:
            if l == 1:
                c1.setdefault(p, set()).add(c)
        out = set(rel)
        for g in self.store:
            for p in c1.get(g, ()):
                for c in c1.get(p, ()):
                    out.add((g, c, 2))
        return out


class ModelError(Exception):
    pass


class ModelAmbiguous(Exception):
    pass
