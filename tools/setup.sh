#!/bin/sh
# Offline setup after a fresh restore: hypothesis beside the repository's packages,
# atheris into /verif/.deps (used only by thorough-tier fuzz legs). Nothing is fetched.
here="$(cd "$(dirname "$0")/.." && pwd)"
W=/opt/veriftools/wheels
/venv/bin/python -c "import hypothesis" 2>/dev/null || /venv/bin/pip install -q --no-index --find-links "$W" hypothesis || exit 1
if [ ! -d "$here/.deps/atheris" ]; then
  /venv/bin/pip install -q --no-index --find-links "$W" --target "$here/.deps" atheris || echo "atheris not installed: fuzz legs will be skipped and say so"
fi
chmod +x "$here/check"
/venv/bin/python -c "import hypothesis, gffutils; print('setup ok: hypothesis', hypothesis.__version__)"
