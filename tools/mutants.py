"""
Sensitivity runs.  For each mutant in mutants/list.json: copy /repo to a scratch
directory outside /repo and /verif, apply the single edit, check that the pinned
74 tests still pass there (optional, --tests), run the property's quick check
with GFV_REPO pointing at the copy, record exit status, delete the copy.

  /venv/bin/python tools/mutants.py [--only C12[,C07]] [--id m1,m2] [--tests] [--tier quick] [-j 4]

Writes out/mutants/<id>.log and prints one line per mutant; --write updates SENSITIVITY.md.
"""
import argparse, json, os, shutil, subprocess, sys, tempfile, time
from concurrent.futures import ThreadPoolExecutor

HERE = os.path.dirname(os.path.dirname(os.path.abspath(__file__)))
REPO = "/repo"
BASE_PASS = 74


def load():
    with open(os.path.join(HERE, "mutants", "list.json")) as fh:
        return json.load(fh)


def make_copy(m):
    base = "/dev/shm" if os.path.isdir("/dev/shm") else None
    d = tempfile.mkdtemp(prefix="gfv-mut-%s-" % m["id"], dir=base)
    dst = os.path.join(d, "repo")
    shutil.copytree(REPO, dst, ignore=shutil.ignore_patterns(".git", "*.db", "__pycache__", "doc"))
    edits = m.get("edits") or [m]
    for e in edits:
        p = os.path.join(dst, e["file"])
        s = open(p).read()
        if s.count(e["old"]) < 1:
            shutil.rmtree(d, ignore_errors=True)
            raise LookupError("mutant %s: pattern not found in %s: %r" % (m["id"], e["file"], e["old"][:80]))
        s = s.replace(e["old"], e["new"], e.get("count", 1))
        open(p, "w").write(s)
    return d, dst


def run_tests(dst):
    env = dict(os.environ, PYTHONPATH=dst, PYTHONDONTWRITEBYTECODE="1")
    p = subprocess.run(
        ["/venv/bin/python", "-m", "pytest", "-q", "-p", "no:cacheprovider", "--timeout=900",
         "--continue-on-collection-errors", "--deselect", "gffutils/test/test_biopython_integration.py::test_roundtrip",
         "--deselect", "gffutils/test/test_cli.py::test_issue_224"],
        cwd=dst, env=env, capture_output=True, text=True)
    tail = p.stdout.strip().splitlines()[-1] if p.stdout.strip() else ""
    import re
    mo = re.search(r"(\d+) passed", tail)
    npass = int(mo.group(1)) if mo else 0
    failed = re.search(r"(\d+) failed", tail)
    return npass, (int(failed.group(1)) if failed else 0), tail


def one(m, args):
    t0 = time.time()
    try:
        d, dst = make_copy(m)
    except LookupError as e:
        print(str(e))
        props = m["props"] if "props" in m else [m["prop"]]
        return m, None, dict((p_, (3, "pattern not found: mutant out of date")) for p_ in props), 0.0
    try:
        tests = None
        if args.tests:
            tests = run_tests(dst)
        props = m["props"] if "props" in m else [m["prop"]]
        out = {}
        for prop in props:
            env = dict(os.environ, GFV_REPO=dst, PYTHONDONTWRITEBYTECODE="1", GFV_JOBS=str(args.check_jobs))
            env.setdefault("VERIF_SEED", "1")
            p = subprocess.run([os.path.join(HERE, "check"), prop, args.tier], cwd=HERE, env=env,
                               capture_output=True, text=True)
            os.makedirs(os.path.join(HERE, "out", "mutants"), exist_ok=True)
            with open(os.path.join(HERE, "out", "mutants", "%s_%s.log" % (m["id"], prop)), "w") as fh:
                fh.write(p.stdout + "\n--- stderr ---\n" + p.stderr[-5000:])
            first = ""
            for line in p.stdout.splitlines():
                if line.startswith("failure:"):
                    first = line[:200]
                    break
            out[prop] = (p.returncode, first)
        return m, tests, out, time.time() - t0
    finally:
        shutil.rmtree(d, ignore_errors=True)


def main():
    ap = argparse.ArgumentParser()
    ap.add_argument("--only")
    ap.add_argument("--id")
    ap.add_argument("--tests", action="store_true")
    ap.add_argument("--tier", default="quick")
    ap.add_argument("-j", type=int, default=2)
    ap.add_argument("--check-jobs", type=int, default=8)
    ap.add_argument("--write", action="store_true")
    args = ap.parse_args()
    ms = load()
    if args.only:
        want = set(args.only.split(","))
        ms = [m for m in ms if want & set(m.get("props") or [m["prop"]])]
    if args.id:
        want = set(args.id.split(","))
        ms = [m for m in ms if m["id"] in want]
    rows = []
    # evidence files are rewritten by mutant runs: save and restore them
    evdir = os.path.join(HERE, "evidence")
    saved = {n: open(os.path.join(evdir, n)).read() for n in os.listdir(evdir)} if os.path.isdir(evdir) else {}
    try:
        with ThreadPoolExecutor(args.j) as ex:
            for m, tests, out, dt in ex.map(lambda m: one(m, args), ms):
                for prop, (rc, first) in out.items():
                    verdict = {0: "SURVIVED", 1: "caught", 2: "HARNESS-ERROR"}.get(rc, "rc=%d" % rc)
                    if m.get("expect") == "survive" and rc == 0:
                        verdict = "survived (expected: result-neutral)"
                    t = "" if tests is None else " tests=%d passed/%d failed" % (tests[0], tests[1])
                    print("%-28s %-4s %-10s%s %5.0fs  %s | %s" % (m["id"], prop, verdict, t, dt, m.get("note", ""), first))
                    sys.stdout.flush()
                    rows.append((m, prop, verdict, tests, first))
    finally:
        for n, s in saved.items():
            open(os.path.join(evdir, n), "w").write(s)
    if args.write:
        write_md(rows)


def write_md(rows):
    p = os.path.join(HERE, "SENSITIVITY.md")
    old = {}
    if os.path.exists(p):
        for line in open(p):
            if line.startswith("| ") and not line.startswith("| id") and not line.startswith("| --"):
                cells = [c.strip() for c in line.strip().strip("|").split("|")]
                if len(cells) >= 5:
                    old[(cells[0], cells[1])] = cells
    for m, prop, verdict, tests, first in rows:
        t = "" if tests is None else "%d pass / %d fail" % (tests[0], tests[1])
        prev = old.get((m["id"], prop))
        if not t and prev:
            t = prev[4]
        old[(m["id"], prop)] = [m["id"], prop, m.get("note", "").replace("|", "/"), verdict, t, first.replace("|", "/")[:120]]
    with open(p, "w") as fh:
        fh.write("# Sensitivity: single-edit mutants of /repo run against the quick checks\n\n")
        fh.write("Produced by `tools/mutants.py --write` (scratch copies under /dev/shm, removed after each run). "
                 "`tests` = result of the repository's pinned suite on the mutated copy (74 pass = invisible to the suite).\n\n")
        fh.write("| id | prop | edit | verdict | tests | first failure line |\n|----|------|------|---------|-------|--------------------|\n")
        for k in sorted(old):
            fh.write("| " + " | ".join(old[k]) + " |\n")


if __name__ == "__main__":
    main()
