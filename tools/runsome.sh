#!/bin/sh
# Run the given tier for the listed checks: tools/runsome.sh thorough C03 C04 ...
tier="$1"; shift
worst=0
cd "$(dirname "$0")/.."
for c in "$@"; do
  out=$(./check $c $tier 2>&1); rc=$?
  echo "rc=$rc $(echo "$out" | grep -v KNOWN-FINDING | tail -1 | cut -c1-160)"
  if [ $rc -ne 0 ]; then worst=$rc; echo "$out" | grep -E "failure|VIOLATION|HARNESS" | head -3; fi
done
exit $worst
