"""Regenerate MANIFEST.json from the table below.  Run: /venv/bin/python tools/mkmanifest.py"""
import json, os

here = os.path.dirname(os.path.dirname(os.path.abspath(__file__)))

# id -> (technique, level text, level note, design ref)
CHECKS = {
    "C12": (
        "exhaustive enumeration of the bin-boundary grid + Hypothesis random pairs against an independent arithmetic oracle",
        "Every pair of coordinates within +-2 of a bin edge (quick: edges that are multiples of 2^20 plus all pairs inside the "
        "two finest bins around every 2^17 multiple; thorough: every 2^17 multiple, ~8e8 calls) is compared with an oracle "
        "written from the statement (0-based positions, direct per-level shifts); random pairs add the overlap corollary and "
        "Feature.bin. Exhaustive on that finite grid, sampling elsewhere; no absence claim beyond it.",
        "bins() is pure; oracle arithmetic (gfv/props/c12.py expect_one/overlap_set) is trusted; Python ints.",
        "DESIGN.md section 4 C12, Appendix A.3",
    ),
}

NOT_YET = {}

def main():
    props = [json.loads(l) for l in open(os.path.join(here, "properties.jsonl"))]
    checks = []
    na = []
    for p in props:
        pid = p["id"]
        if pid in CHECKS:
            tech, text, note, ref = CHECKS[pid]
            checks.append({
                "property_id": pid,
                "quick_cmd": "./check %s quick" % pid,
                "thorough_cmd": "./check %s thorough" % pid,
                "evidence_file": "evidence/%s.json" % pid,
                "replay_cmd_template": "./check --replay {path}",
                "engine": "gfv",
                "level_claimed": {"category": "exploration", "text": text, "design_ref": ref},
                "level_note": note,
                "technique": tech,
            })
        else:
            na.append({"property_id": pid, "reason": NOT_YET.get(pid, "check not built yet in this session; planned per DESIGN.md section 4 (property-based search applies)")})
    m = {
        "version": 1,
        "setup_cmd": "sh tools/setup.sh",
        "hooks": {
            "guard": "GFFUTILS_VERIF",
            "enable": "no hooks: checks import /repo's working tree directly (pure Python); instrumentation is attached from outside (sqlite3 trace callback, wrapped tempfile factory in worker processes)",
            "baseline_off_cmd": "cd /repo && /venv/bin/python -m pytest -ra -q -p no:cacheprovider --timeout=900 --continue-on-collection-errors",
            "source_commits": [],
            "add_only": True,
        },
        "engines": [{
            "name": "gfv",
            "path": "gfv/",
            "serves_properties": [c["property_id"] for c in checks],
            "kind_free_text": "Hypothesis 6.168 strategies and rule-based state machines, itertools enumerations of finite sub-domains, atheris byte-level targets; sharded over 16 processes, explicit oracles per property, shrunk failures saved as replay files",
        }],
        "checks": checks,
        "notes": "VERIF_SEED seeds every shard (seed*1000+i) and PYTHONHASHSEED; GFV_REPO points the checks at another tree (mutation runs). Exit 2 = harness error (never a VIOLATION).",
        "not_applicable": na,
    }
    with open(os.path.join(here, "MANIFEST.json"), "w") as fh:
        json.dump(m, fh, indent=1)
        fh.write("\n")

main()
