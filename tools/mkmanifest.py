"""Regenerate MANIFEST.json from the table below.  Run: /venv/bin/python tools/mkmanifest.py"""
import json, os

here = os.path.dirname(os.path.dirname(os.path.abspath(__file__)))

# id -> (technique, level text, level note, design ref)
CHECKS = {
    "C20": (
        "Hypothesis-generated process configurations executed with forked workers under a harness-forced overlap (barriers around start and temp-file creation); differential against solitary imports",
        "2-40 importer processes (GFF3/GTF inputs incl. GTF without exon lines, same or different, offsets 0-20 ms, one shared TMPDIR, outputs with distinct or identical basenames) are released together and held at the "
        "creation of their intermediate file until all have one; every output snapshot must equal the solitary import of its input, the shared "
        "temp dir must be empty afterwards, and 2-32 concurrent readers of a finished file must all see its full content. Overlapping pairs and "
        "barrier meetings are measured and reported; the clock is never an oracle. Input variants include gzip with a ##FASTA tail and inputs whose import must fail (duplicate ID) while the others are held between writing and reading back their intermediate file.",
        "Schedules are sampled, not enumerated; inputs are paths.",
        "DESIGN.md section 4 C20",
    ),
    "C10": (
        "Hypothesis RuleBasedStateMachine (model-based stateful testing) + exhaustive enumeration of short operation sequences; full-snapshot invariant after every step",
        "Histories on a GFF3 or a GTF-importer database over update (five strategies; list / generator / text-path input; checklines), delete (ids, Features, missing, relation-only ids), add_relation (optionally with child_func), reopen, empty "
        "update and a faulty update whose source raises after k items (during dialect inference or mid-import; followed by one more id-less update on the same handle, whose keys must be new) are applied to a real file database and to a reference model (MergeModel + set "
        "arithmetic for relations incl. the level-2 closure); after every step the features, relations, directives, dialect and id counters must "
        "equal the model (also through look-ups, counts and distinct values on the long-lived handle), auto ids never recur, and with make_backup the .bak file must be the complete pre-operation database - also when the "
        "operation then fails. All sequences up to depth 3 (quick) / 4 (thorough) over two fixed 8-operation alphabets (general, merge-centred) are enumerated as well.",
        "Faults are exceptions raised by the feature source (no process/disk crash); after a raising update only the .bak promise is checked; "
        "replace updates that change Parent are excluded (known finding D11).",
        "DESIGN.md section 4 C10",
    ),
    "C19": (
        "Hypothesis-generated (old db, new input, force) triples and read-call sequences; differential snapshot oracle + SQL statement tracing from outside",
        "create_db onto an existing file (also one emptied by delete(), also with a feature-less new input) must raise without force and leave the file and its snapshot unchanged, and with force must equal an import into a fresh "
        "path; generated sequences of 5-30 read-style calls (17 kinds, generated arguments, generators consumed or abandoned, calls that raise) are "
        "traced with sqlite3 set_trace_callback (optionally after a half-failed write on the same handle): only SELECT/PRAGMA/EXPLAIN may be issued, no transaction may stay open, and the reopened file's "
        "snapshot and bytes must be unchanged.",
        "Statement classification by first keyword; reference bytes taken after one open/close cycle.",
        "DESIGN.md section 4 C19",
    ),
    "C18": (
        "Hypothesis-generated reference FASTA + features, and transcript structures; arithmetic / slice / own reverse-complement / BED12 field oracles",
        "len(), sequence() (path or pyfaidx object, use_strand on/off, IUPAC codes in both cases, features spanning FASTA line breaks) are compared with a "
        "slice of the generated reference (the same FASTA path is rewritten case after case) and an own complement table; bed12() (id or Feature, block/thick/thin choices, name field, colour, both "
        "always_return_list settings) with fields computed from the generated exons/CDS/UTRs, ValueError exactly when the blocks do not span, and "
        "convert.to_bed12 on the shared fields.",
        "Features inside the reference; non-overlapping blocks; thick fields only when thick/thin features exist.",
        "DESIGN.md section 4 C18",
    ),
    "C17": (
        "Hypothesis-generated mappings, mapping pairs and Feature pairs; round-trip, view-invariance, reference-union and equality-vs-printing oracles",
        "Five relations over arbitrary-Unicode mappings: values set as scalars/lists/tuples through Feature[...], .attributes[...] or update() are stored "
        "as sequences; toggling always_return_list changes only the view of single-item lists, never stored data, printing or parsing; JSON text and a "
        "database round trip are the identity incl. key order; merge_attributes equals the per-key sorted duplicate-free (numerically ordered) union "
        "for dicts and Attributes under both switch settings without touching its arguments; ==, != and hash agree with printed-line equality, also for features edited after they were hashed; decoding the same JSON text twice gives independent objects.",
        "always_return_list restored per case; numeric order only when all values are finite floats.",
        "DESIGN.md section 4 C17",
    ),
    "C16": (
        "exhaustive enumeration of small interval multisets x criteria sets + Hypothesis random lists and databases; greedy reference, independent union sweep, identity-based partition check",
        "Every start-ordered multiset of <= 3 (quick) / <= 4 (thorough) intervals over 8 positions is merged under 9 criteria sets and compared with "
        "a greedy reference that has its own implementation of each shipped criterion, and (default criteria) with an independent sweep of maximal "
        "overlapping-or-adjacent runs; outputs must partition the input objects, span min..max of their children, carry fresh ids, leave inputs and "
        "database untouched, and re-merging the same objects (same or other criteria, or the outputs) must agree again. merge_all and children_bp "
        "are compared on generated databases (incl. empty featuretypes_groups, stored bins, relations of deleted members, merged outputs written back with update() while the merge() generator is consumed, and a later merge() on the same handle); criteria are also passed as one-shot iterables and inputs may carry extra columns.",
        "Criteria reflexive; exhaustive only for the stated scope.",
        "DESIGN.md section 4 C16",
    ),
    "C15": (
        "Hypothesis-generated ordered feature lists and gene/transcript/exon databases against a reference gap loop",
        "interfeatures() must yield exactly the reference sequence of gaps (seqid, start, end, featuretype, strand, attribute map incl. numeric "
        "sort, '-'-joined IDs and update_attributes) for lists with gaps, adjacency, overlap, nesting and seqid changes, leaving inputs and "
        "database unchanged; create_introns / create_splice_sites must equal, as multisets, the gaps between each transcript's start-ordered "
        "exons and their two-base sites labelled by side and strand, also on a second call after an exon was deleted through the same handle.",
        "Reference loop ref_inter() in gfv/props/c15.py; generated exons of a transcript have distinct starts.",
        "DESIGN.md section 4 C15, Appendix A.4",
    ),
    "C11": (
        "Hypothesis-generated feature sets and query combinations; brute-force filter + SQLite-ordering monotonicity oracle",
        "3-30 features with mixed-case/non-ASCII/numeric-looking text columns, '.' coordinates and ties are queried ~25 times each through "
        "all_features/features_of_type with featuretype (str/list/tuple), strand, every order_by column incl. 'length' and 'file_order' (string and "
        "tuple forms) and reverse; results must be a permutation of the brute-force answer and monotone under NULL < int < UTF-8 bytes; counts and "
        "distinct featuretypes/seqids must equal a full scan, on :memory: and file databases, and again after delete() and update() through the same handle.",
        "SQLite BINARY collation model sk() in gfv/props/c11.py; ties unordered; reverse only for one column.",
        "DESIGN.md section 4 C11",
    ),
    "C06": (
        "Hypothesis-generated feature sets with bin-boundary-biased coordinates; brute-force filter oracle over region()/limit= query forms",
        "Databases of 3-25 features placed at +-2 of 2^17*8^k bin edges and of 2^29 are queried 12-20 times each through region() (tuple, string, "
        "Feature, keyword, seqid-less, one-sided forms; strand, featuretype, completely_within) and through limit= of all_features, "
        "features_of_type, children and parents; every answer must equal the brute-force filter of the generated list (one-sided: boundary features either way); a second leg does the same against the rows actually stored in a GTF database whose inferred features changed through update(). Each query is followed by its twin with completely_within toggled, a generated shift may be applied by a transform at import, and the whole list is asked again after update() added features (some beyond the old extent) through the same handle.",
        "Integer coordinates with 1 <= start <= end; brute-force predicates in gfv/props/c06.py.",
        "DESIGN.md section 4 C06",
    ),
    "C05": (
        "Hypothesis-generated colliding feature sequences against a sequential reference model of the five strategies (create_db and create_db+update)",
        "2-7 features over colliding keys with pooled columns/attributes/Parent values are imported under each strategy and force_merge_fields subset, "
        "through the GFF3 and the GTF importer, all at once or split between create_db and update(); ids, columns, attributes (sets for merged "
        "features, exact otherwise), the error outcome and the whole relation table must equal MergeModel's. A second leg enumerates all operation sequences (depth 3 quick / 5 thorough) over a merge-centred alphabet of updates, deletes and reopen against the same model. One known finding (D11, replace keeps "
        "the replaced line's links) is matched by signature and reported as KNOWN-FINDING.",
        "MergeModel (gfv/refmodels.py) is a second implementation of the statement/database-ids.rst; a shared misreading would go unnoticed.",
        "DESIGN.md section 4 C05, Appendix A.1",
    ),
    "C02": (
        "Hypothesis-generated Parent DAGs rendered as permuted GFF3 files; reference-graph oracle over every (feature, level, featuretype, order_by) query",
        "DAGs up to 12 features and depth 4 with multi-parent, shared and dangling Parent values and exotic ids are written in a generated line order; "
        "children()/parents() of every stored feature at level None/1/2/3 with featuretype and order_by variants must equal the reference graph's "
        "sets exactly (no repeats, never the feature itself), dangling parents raise FeatureNotFoundError, iter_by_parent_childs agrees; in a share of cases the tail of the file arrives later through update(), also written in another separator dialect or through a second handle on the same file; files may mix comma lists with repeated Parent keys; a second leg imports files of 450-2800 features (verbose on/off) and compares the whole relation table with the reference closure.",
        "Reference graph in gfv/props/c02.py reference(); ids unique.",
        "DESIGN.md section 4 C02",
    ),
    "C03": (
        "Hypothesis-generated gene/transcript/exon structures rendered as shuffled GTF files; extents and hierarchy from a reference computation",
        "Derived transcript/gene features must exist exactly for ids owning an exon (unless disabled or explicitly present), span min start..max end of "
        "the exons on their seqid/strand, and children/parents at levels 1 and 2 must equal the id-carrying lines; explicit gene/transcript lines stay "
        "single and are never their own relative; all four disable_infer_* combinations and custom keys/subfeature; in a share of cases the last gene, or one transcript's exons, arrive through update() with the same flags, optionally after an update with a constructor-built Feature and a reopen, or after a first import with inference off; genes may have exons without a transcript key, non-exon lines may be unstranded, merge_strategy is drawn.",
        "Every line carries gene and transcript keys; one seqid/strand per gene; children(gene, 2) may include stored transcripts.",
        "DESIGN.md section 4 C03",
    ),
    "C04": (
        "Hypothesis-generated records x id_spec forms against a reference implementation of the documented id rules",
        "Stored ids must equal ref_ids() (database-ids.rst) in input order for 16 id_spec forms incl. lists, dicts, ':field:' and callables, be unique, "
        "db[id]/db[feature] must return exactly the stored line, generated absent keys (prefixes, case variants, SQL wildcards, padded) must raise "
        "FeatureNotFoundError carrying the key, and a multi-valued selected id attribute must make create_db raise ValueError; in a share of cases the tail arrives through one or two update() calls on the same handle (numbering continues, look-ups follow, also under 'replace', also after a delete and a reopen of the file).",
        "Reference ref_ids()/resolve_unique() in gfv/props/c04.py; explicit ids avoid the generated-name shapes.",
        "DESIGN.md section 4 C04",
    ),
    "C13": (
        "Hypothesis differential testing across the seven input forms + call-counting transforms + Counter oracle for inspect()",
        "The same generated annotation is supplied as path, gzip path, string, list / deque / dict values of Features, one-shot generator, list iterator, map object, custom __next__ iterator, DataIterator and FeatureDB (verbose on or off) for "
        "every checklines in 0..n+2; iteration sequences and database snapshots must be equal (and equal to the text model for the path form); a "
        "counting transform must be called exactly n times and exactly the rows for which it returned a false value are missing; inspect() must "
        "equal Counters over the first `limit` features and leave the rest of a one-shot source untouched; transforms that return a modified copy must be honoured.",
        "Every generated line exhibits its dialect (otherwise the forms legitimately differ); GTF compared with inference disabled.",
        "DESIGN.md section 4 C13",
    ),
    "C01": (
        "Hypothesis-generated annotation files rendered from an independent text model; round-trip / inverse oracle + reopen + re-import metamorphic relation",
        "Files of 1-12 lines in every grammar dialect (four attribute styles: key=value, key \"value\", key value, key=\"value\") are rendered from structured records; after create_db the rows must equal the records "
        "(columns, extras always; ordered attributes and byte-identical printing whenever the dialect-observation model says the inspected "
        "window recovers the dialect), also after close/reopen, after re-importing the printed lines, when the iteration is interleaved with other queries, when the same objects are printed twice (their attributes unchanged by printing), and for inputs named by a file:// URL (plain or gzip). Sampling: thousands of files per run.",
        "Text model/renderer and the dialect-observation model (gfv/textmodel.py) are trusted; domain restrictions of DESIGN section 3.",
        "DESIGN.md section 4 C01, Appendix A.2",
    ),
    "C07": (
        "Hypothesis-generated single lines from the text model; inverse oracle (parse == record, print == line) + metamorphic tab/space relation",
        "Every combination of style, separator, trailing semicolon, repeated/comma lists, flags, escapes, extras and '.' coordinates is drawn; "
        "feature_from_line must give the record back and print the identical bytes - also on a second print after hashing, with the parsed values untouched; a space-rendered nine-column line must parse equal under strict=False; an atheris campaign applies the same oracle to byte-decoded records.",
        "Renderer (gfv/textmodel.py) trusted; value-domain restrictions of DESIGN section 3.",
        "DESIGN.md section 4 C07",
    ),
    "C08": (
        "Hypothesis round trip under supplied dialects + exhaustive enumeration of short attribute strings (totality) + random strings",
        "Mappings over arbitrary Unicode incl. tab/newline/%/;/=/&/,/controls are printed and re-parsed under every gff3-style dialect dictionary "
        "(and GTF-style ones over their escape-free value domain); every string up to length 5 (quick) / 7 (thorough) over the structural alphabet "
        "is parsed under the inferred and five supplied dialects and must yield str -> [str] without raising (plus atheris campaigns from an empty and a harvested corpus); a parsed feature whose value list is edited in place after printing must print and re-parse as it is now.",
        "Exhaustive only up to the stated length over 8 symbols; sampling beyond.",
        "DESIGN.md section 4 C08",
    ),
    "C09": (
        "Hypothesis-generated consistent files, two-valued mixtures and supplied dialects against a reference vote model",
        "Consistent files must report exactly their dialect (all entries, first-seen key order) through DataIterator, create_db, a reopened "
        "FeatureDB and helpers.infer_dialect, and route to the GFF3 or GTF importer; mixtures must resolve to the attribute-count-weighted "
        "majority with ties to the first seen; a supplied dialect is reported verbatim and drives parsing; force_gff=True and a later update() with differently written text leave the reported dialect alone.",
        "Vote model (gfv/textmodel.py vote/observe) trusted; mixtures whose winner differs between windows of checklines and checklines+1 lines are not asserted.",
        "DESIGN.md section 4 C09, Appendix A.2",
    ),
    "C14": (
        "Hypothesis-generated interleavings of directive/comment/blank/feature/FASTA lines against a line-by-line reference reading",
        "Documents with directives below and above the inspection window, look-alike lines and FASTA tails are imported from a path and from a "
        "string, with inferred and supplied dialect; DataIterator.directives, db.directives and the reopened database must list exactly the "
        "'##' lines before the FASTA marker, in order, and exactly the feature lines before it must be stored - still so after a later update() and reopen.",
        "Reference reading in gfv/props/c14.py expected(); blank means empty line.",
        "DESIGN.md section 4 C14",
    ),
    "C12": (
        "exhaustive enumeration of the bin-boundary grid + Hypothesis random pairs against an independent arithmetic oracle",
        "Every pair of coordinates within +-2 of a bin edge (quick: edges that are multiples of 2^20 plus all pairs inside the "
        "two finest bins around every 2^17 multiple; thorough: every 2^17 multiple, ~8e8 calls) is compared with an oracle "
        "written from the statement (0-based positions, direct per-level shifts); random pairs add the overlap corollary, "
        "Feature.bin and independence of the returned set from caller mutation; a stored_bin leg stores features whose coordinates "
        "changed after construction (transform, edit, update(replace)) and checks the stored bin and bin-filtered queries up to 2^29. "
        "Exhaustive on that finite grid, sampling elsewhere; no absence claim beyond it.",
        "bins() is pure; oracle arithmetic (gfv/props/c12.py expect_one/overlap_set) is trusted; Python ints.",
        "DESIGN.md section 4 C12, Appendix A.3",
    ),
}

NOT_YET = {}

def main():
    props = [json.loads(l) for l in open(os.path.join(here, "properties.jsonl"))]
    checks = []
    na = []
    for p in props:
        pid = p["id"]
        if pid in CHECKS:
            tech, text, note, ref = CHECKS[pid]
            checks.append({
                "property_id": pid,
                "quick_cmd": "./check %s quick" % pid,
                "thorough_cmd": "./check %s thorough" % pid,
                "evidence_file": "evidence/%s.json" % pid,
                "replay_cmd_template": "./check --replay {path}",
                "engine": "gfv",
                "level_claimed": {"category": "exploration", "text": text, "design_ref": ref},
                "level_note": note,
                "technique": tech,
            })
        else:
            na.append({"property_id": pid, "reason": NOT_YET.get(pid, "check not built yet in this session; planned per DESIGN.md section 4 (property-based search applies)")})
    m = {
        "version": 1,
        "setup_cmd": "sh tools/setup.sh",
        "hooks": {
            "guard": "GFFUTILS_VERIF",
            "enable": "no hooks: checks import /repo's working tree directly (pure Python); instrumentation is attached from outside (sqlite3 trace callback, wrapped tempfile factory and open() of gffutils.create in C20 worker processes)",
            "baseline_off_cmd": "cd /repo && /venv/bin/python -m pytest -ra -q -p no:cacheprovider --timeout=900 --continue-on-collection-errors",
            "source_commits": [],
            "add_only": True,
        },
        "engines": [{
            "name": "gfv",
            "path": "gfv/",
            "serves_properties": [c["property_id"] for c in checks],
            "kind_free_text": "Hypothesis 6.168 strategies and rule-based state machines, itertools enumerations of finite sub-domains, atheris byte-level targets; sharded over 16 processes, explicit oracles per property, shrunk failures saved as replay files",
        }],
        "checks": checks,
        "notes": "VERIF_SEED seeds every shard (seed*1000+i) and PYTHONHASHSEED; GFV_REPO points the checks at another tree (mutation runs). Exit 2 = harness error (never a VIOLATION).",
        "not_applicable": na,
    }
    with open(os.path.join(here, "MANIFEST.json"), "w") as fh:
        json.dump(m, fh, indent=1)
        fh.write("\n")

main()
