"""
Confirm and archive seeded changes written by independent sub-agents, and run the
registered checks against them.

  /venv/bin/python tools/seeded.py ingest /tmp/seed-C05 [--props C05,C10]   # confirm + copy to seeded/<id>/ + run checks
  /venv/bin/python tools/seeded.py rerun [--only C05_A,...] [--tier quick]    # re-run checks against archived seeds
  /venv/bin/python tools/seeded.py table                                     # print the markdown table

For each variant: scratch copy of /repo (outside /repo and /verif), `patch -p1 < patch.diff`,
the pinned test suite on the copy (expect 74 passed), the demonstration with and without
the change, then `GFV_REPO=<copy> ./check <prop> quick`.  The copy is removed afterwards.
Nothing is ever applied to /repo itself.
"""
import argparse
import glob
import json
import os
import re
import shutil
import subprocess
import sys
import tempfile

HERE = os.path.dirname(os.path.dirname(os.path.abspath(__file__)))
REPO = "/repo"
SEEDED = os.path.join(HERE, "seeded")


def scratch_copy(patch):
    base = "/dev/shm" if os.path.isdir("/dev/shm") else None
    d = tempfile.mkdtemp(prefix="gfv-seed-", dir=base)
    dst = os.path.join(d, "repo")
    shutil.copytree(REPO, dst, ignore=shutil.ignore_patterns(".git", "*.db", "__pycache__", "doc"))
    p = subprocess.run(["patch", "-p1", "-s", "-i", patch], cwd=dst, capture_output=True, text=True)
    if p.returncode != 0:
        shutil.rmtree(d, ignore_errors=True)
        raise RuntimeError("patch does not apply: %s %s" % (p.stdout, p.stderr))
    return d, dst


def run_tests(dst):
    env = dict(os.environ, PYTHONPATH=dst, PYTHONDONTWRITEBYTECODE="1")
    p = subprocess.run(
        ["/venv/bin/python", "-m", "pytest", "-q", "-p", "no:cacheprovider", "--timeout=900", "--continue-on-collection-errors",
         "--deselect", "gffutils/test/test_biopython_integration.py::test_roundtrip", "--deselect", "gffutils/test/test_cli.py::test_issue_224"],
        cwd=dst, env=env, capture_output=True, text=True)
    tail = p.stdout.strip().splitlines()[-1] if p.stdout.strip() else ""
    mo = re.search(r"(\d+) passed", tail)
    fo = re.search(r"(\d+) failed", tail)
    return int(mo.group(1)) if mo else 0, int(fo.group(1)) if fo else 0


def run_demo(demo, tree):
    env = dict(os.environ, PYTHONPATH=tree, PYTHONDONTWRITEBYTECODE="1")
    p = subprocess.run(["/venv/bin/python", demo], cwd=tempfile.gettempdir(), env=env, capture_output=True, text=True, timeout=600)
    return p.returncode, (p.stdout + p.stderr)[-600:]


def run_check(prop, dst, tier, seed="1"):
    env = dict(os.environ, GFV_REPO=dst, PYTHONDONTWRITEBYTECODE="1", VERIF_SEED=seed)
    p = subprocess.run([os.path.join(HERE, "check"), prop, tier], cwd=HERE, env=env, capture_output=True, text=True)
    first = ""
    for line in p.stdout.splitlines():
        if line.startswith("failure:") or line.startswith("HARNESS-ERROR"):
            first = line[:300]
            break
    return p.returncode, first


def save_evidence():
    ev = os.path.join(HERE, "evidence")
    return dict((n, open(os.path.join(ev, n)).read()) for n in os.listdir(ev)) if os.path.isdir(ev) else {}


def restore_evidence(saved):
    ev = os.path.join(HERE, "evidence")
    for n, s in saved.items():
        open(os.path.join(ev, n), "w").write(s)


def evaluate(sid, sdir, props, tier, seed="1"):
    meta_p = os.path.join(sdir, "meta.json")
    meta = json.load(open(meta_p))
    d, dst = scratch_copy(os.path.join(sdir, "patch.diff"))
    try:
        if "tests_passed" not in meta:
            meta["tests_passed"], meta["tests_failed"] = run_tests(dst)
            rc_with, out_with = run_demo(os.path.join(sdir, "demo.py"), dst)
            rc_without, out_without = run_demo(os.path.join(sdir, "demo.py"), REPO)
            meta["demo_exit_with_change"] = rc_with
            meta["demo_exit_without_change"] = rc_without
            meta["demo_tail_with_change"] = out_with[-300:]
            meta["confirmed"] = meta["tests_passed"] == 74 and meta["tests_failed"] == 0 and rc_with != 0 and rc_without == 0
        checks = meta.setdefault("checks", {})
        for prop in props:
            rc, first = run_check(prop, dst, tier, seed)
            checks["%s %s" % (prop, tier) + ("" if seed == "1" else " seed=%s" % seed)] = {"exit": rc, "verdict": {0: "missed", 1: "caught", 2: "harness-error"}.get(rc, str(rc)),
                                             "first_failure": first}
    finally:
        shutil.rmtree(d, ignore_errors=True)
    meta["what_was_run"] = [
        "scratch copy of /repo under /dev/shm, patch -p1 < patch.diff",
        "pinned test suite on the copy (expect 74 passed)",
        "PYTHONPATH=<copy> /venv/bin/python demo.py (expect non-zero) and PYTHONPATH=/repo (expect 0)",
        "GFV_REPO=<copy> VERIF_SEED=1 ./check <property> %s" % tier,
    ]
    json.dump(meta, open(meta_p, "w"), indent=1)
    return meta


def ingest(src, props_override, tier):
    base = os.path.basename(src.rstrip("/"))
    prop = base.split("-")[-1]
    mo = re.match(r"seed(\d+)-", base)
    rnd = ("r%s" % mo.group(1)) if mo else ""
    out = []
    for diff in sorted(glob.glob(os.path.join(src, "SEED_*.diff"))):
        var = os.path.basename(diff)[5:-5]
        sid = "%s_%s%s" % (prop, rnd, var)
        sdir = os.path.join(SEEDED, sid)
        os.makedirs(sdir, exist_ok=True)
        shutil.copy(diff, os.path.join(sdir, "patch.diff"))
        demo = os.path.join(src, "SEED_%s_demo.py" % var)
        notes = os.path.join(src, "SEED_%s_notes.md" % var)
        if not os.path.exists(demo):
            print("%s: no demo, skipped" % sid)
            shutil.rmtree(sdir)
            continue
        shutil.copy(demo, os.path.join(sdir, "demo.py"))
        ntext = open(notes).read() if os.path.exists(notes) else ""
        if ntext:
            open(os.path.join(sdir, "notes.md"), "w").write(ntext)
        meta = {"id": sid, "property": prop, "source": "independent sub-agent given only the property text and a scratch worktree",
                "needs_to_manifest": ntext.strip()[:1500]}
        json.dump(meta, open(os.path.join(sdir, "meta.json"), "w"), indent=1)
        try:
            m = evaluate(sid, sdir, props_override or [prop], tier)
        except Exception as e:  # noqa
            print("%s: %s" % (sid, e))
            shutil.rmtree(sdir, ignore_errors=True)
            continue
        if not m.get("confirmed"):
            print("%s: NOT CONFIRMED (tests %s/%s, demo with=%s without=%s) - dropped" % (
                sid, m.get("tests_passed"), m.get("tests_failed"), m.get("demo_exit_with_change"), m.get("demo_exit_without_change")))
            shutil.rmtree(sdir, ignore_errors=True)
            continue
        out.append(m)
        print("%s: confirmed; %s" % (sid, "; ".join("%s -> %s" % (k, v["verdict"]) for k, v in m["checks"].items())))
    return out


def main():
    ap = argparse.ArgumentParser()
    ap.add_argument("cmd", choices=["ingest", "rerun", "table"])
    ap.add_argument("src", nargs="?")
    ap.add_argument("--props")
    ap.add_argument("--only")
    ap.add_argument("--tier", default="quick")
    ap.add_argument("--seed", default="1")
    a = ap.parse_args()
    saved = save_evidence()
    try:
        if a.cmd == "ingest":
            ingest(a.src, a.props.split(",") if a.props else None, a.tier)
        elif a.cmd == "rerun":
            for sdir in sorted(glob.glob(os.path.join(SEEDED, "*"))):
                sid = os.path.basename(sdir)
                if a.only and sid not in a.only.split(","):
                    continue
                meta = json.load(open(os.path.join(sdir, "meta.json")))
                props = a.props.split(",") if a.props else [meta["property"]]
                m = evaluate(sid, sdir, props, a.tier, a.seed)
                print("%s: %s" % (sid, "; ".join("%s -> %s" % (k, v["verdict"]) for k, v in m["checks"].items())))
        else:
            print("| seed | property | needs | checks |\n|---|---|---|---|")
            for sdir in sorted(glob.glob(os.path.join(SEEDED, "*"))):
                meta = json.load(open(os.path.join(sdir, "meta.json")))
                first = meta.get("needs_to_manifest", "").replace("\n", " ").replace("|", "/")[:160]
                print("| %s | %s | %s | %s |" % (meta["id"], meta["property"], first,
                                                 "; ".join("%s: %s" % (k, v["verdict"]) for k, v in meta.get("checks", {}).items())))
    finally:
        restore_evidence(saved)


if __name__ == "__main__":
    main()
