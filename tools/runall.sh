#!/bin/sh
# Run every registered quick (or $1) check at the given seeds; print one line per run.
tier="${1:-quick}"; shift
seeds="${*:-1}"
worst=0
cd "$(dirname "$0")/.."
for s in $seeds; do
  for i in 01 02 03 04 05 06 07 08 09 10 11 12 13 14 15 16 17 18 19 20; do
    out=$(VERIF_SEED=$s ./check C$i $tier 2>&1); rc=$?
    echo "seed=$s rc=$rc $(echo "$out" | grep -v KNOWN-FINDING | tail -1 | cut -c1-160)"
    if [ $rc -ne 0 ]; then worst=$rc; echo "$out" | grep -E "failure|VIOLATION|HARNESS" | head -3; fi
  done
done
exit $worst
