"""Validate MANIFEST.json and every evidence file against the given schemas."""
import json, sys, os, glob
try:
    import jsonschema
except Exception as e:
    print("jsonschema unavailable:", e); sys.exit(0)
here = os.path.dirname(os.path.dirname(os.path.abspath(__file__)))
ok = True
def val(path, schema):
    global ok
    try:
        jsonschema.validate(json.load(open(path)), json.load(open(schema)))
        print("valid  ", path)
    except Exception as e:
        ok = False
        print("INVALID", path, str(e)[:500])
val(os.path.join(here, "MANIFEST.json"), "/root/.vp/MANIFEST.schema.json")
for p in sorted(glob.glob(os.path.join(here, "evidence", "*.json"))):
    val(p, "/root/.vp/EVIDENCE.schema.json")
sys.exit(0 if ok else 1)
